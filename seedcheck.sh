#!/bin/bash
# seedcheck.sh <seed-dir-name> [tier] [check ids...]
# Applies /verif/seeded/<name>/patch.diff to a scratch worktree of /repo's HEAD, runs the pinned test suite on it
# (must stay green), then runs the named checks (default: the seed's property) against it and reports whether each
# printed a VIOLATION line. The scratch worktree is removed afterwards. /repo itself is never modified.
set -u
cd "$(dirname "$0")"
name="$1"; tier="${2:-quick}"; shift; shift || true
dir="seeded/$name"
[ -f "$dir/patch.diff" ] || { echo "no $dir/patch.diff"; exit 2; }
prop=$(python3 -c "import json;print(json.load(open('$dir/meta.json'))['property'])")
checks="${*:-$prop}"
wt=$(mktemp -d /tmp/seedwt-XXXXXX); rmdir "$wt"
git -C /repo worktree add -q --detach "$wt" HEAD || exit 2
key=$(echo "$wt" | cksum | cut -d" " -f1)
trap 'git -C /repo worktree remove --force "$wt" >/dev/null 2>&1; rm -rf "$wt" ".bin/vcheck.$key" engine/go.gen.$key.mod engine/go.gen.$key.sum' EXIT
if ! git -C "$wt" apply "$PWD/$dir/patch.diff"; then echo "SEED $name: patch does not apply to HEAD"; exit 3; fi
if [ "${SEED_SKIP_TESTS:-0}" != 1 ]; then
  VERIF_REPO="$wt" ./baseline.sh | tail -1
fi
rc=0
for c in $checks; do
  out=$(VERIF_REPO="$wt" VERIF_OUT_DIR="$wt/_verif_out" ./run.sh "$c" "$tier" 2>&1)
  if echo "$out" | grep -q "^VIOLATION property=$c"; then
    echo "SEED $name: check $c ($tier) DETECTED: $(echo "$out" | grep -A1 '^VIOLATION' | sed -n 2p | cut -c1-300)"
  else
    echo "SEED $name: check $c ($tier) MISSED: $(echo "$out" | tail -1 | cut -c1-300)"
    rc=1
  fi
done
exit $rc
