#!/bin/bash
# replay_test.sh <replay.json> : re-executes a recorded violation as a plain `go test` (fails if it reproduces)
set -u
VERIF_DIR="$(cd "$(dirname "$0")" && pwd)"
export VERIF_DIR VERIF_REPO="${VERIF_REPO:-/repo}"
export GOFLAGS=-mod=mod GOPROXY=off GOSUMDB=off GOTOOLCHAIN=local GOWORK=off GOCACHE="${GOCACHE:-$VERIF_DIR/.gocache}"
key=$(echo "$VERIF_REPO" | cksum | cut -d' ' -f1)
modf="$VERIF_DIR/engine/go.gen.$key.mod"
sed "s#=> /repo/hermes#=> $VERIF_REPO/hermes#" "$VERIF_DIR/engine/go.mod" > "$modf"; cp "$VERIF_DIR/engine/go.sum" "${modf%.mod}.sum"
cd "$VERIF_DIR/engine" && VERIF_REPLAY="$(realpath "$1")" go test -modfile="$modf" -tags verif -count=1 -run TestReplay ./checks
