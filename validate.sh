#!/bin/bash
# validates MANIFEST.json and all evidence files against the schemas
cd "$(dirname "$0")"
python3-vt - <<'PY'
import json,jsonschema,glob
jsonschema.validate(json.load(open('MANIFEST.json')),json.load(open('/root/.vp/MANIFEST.schema.json')))
es=json.load(open('/root/.vp/EVIDENCE.schema.json'))
for f in sorted(glob.glob('evidence/*.json')):
    jsonschema.validate(json.load(open(f)),es)
    e=json.load(open(f)); c=e['coverage']
    print(f, 'ok', 'exhaustive=',c.get('exhaustive'), 'states=',c.get('states'),'viol=',e.get('violations'))
print('manifest ok')
PY
