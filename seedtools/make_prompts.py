#!/usr/bin/env python3
# Writes /tmp/seedtools/prompt-<Cnn>[-suffix].txt for sub-agents that seed property-breaking changes.
# The agents get only the property text and their own scratch worktree (/tmp/wt-<Cnn>[-suffix]); nothing from /verif.
import json, os, shutil, sys
suffix = sys.argv[1] if len(sys.argv) > 1 else ""
extra = sys.argv[2] if len(sys.argv) > 2 else ""
here = os.path.dirname(os.path.abspath(__file__))
os.makedirs('/tmp/seedtools', exist_ok=True)
shutil.copy(os.path.join(here, 'runtests.sh'), '/tmp/seedtools/runtests.sh')
os.chmod('/tmp/seedtools/runtests.sh', 0o755)
tmpl = open(os.path.join(here, 'prompt_template.txt')).read()
for l in open(os.path.join(here, '..', 'properties.jsonl')):
    p = json.loads(l)
    wt = '/tmp/wt-' + p['id'] + suffix
    open('/tmp/seedtools/prompt-%s%s.txt' % (p['id'], suffix), 'w').write(tmpl.format(wt=wt, pid=p['id'], title=p['title'], statement=p['statement'], quant=p['quantifier']['text'], anchors=', '.join(p['anchors']['files']), extra=extra))
print('prompts written to /tmp/seedtools')
