#!/bin/bash
# Runs the repository's pinned test suite with the verif guard OFF and compares with BASELINE.json's stable_pass list.
REPO="${1:?usage: runtests.sh <worktree>}"
export GOPROXY=off GOSUMDB=off GOTOOLCHAIN=local
out=$(mktemp)
for m in $(cat /w/out/gomods.txt); do
  MF=$(cd $REPO/$m && . /w/out/goenv.sh && gomodflag)
  (cd $REPO/$m && go test $MF -json -vet=off -count=1 -timeout 25m ./... 2>/dev/null)
done > "$out"
python3 - "$out" <<'PY'
import json,sys
passed=set()
for l in open(sys.argv[1]):
    try: e=json.loads(l)
    except Exception: continue
    if e.get('Action')=='pass' and e.get('Test'):
        passed.add(e['Package']+'::'+e['Test'])
base=set(json.load(open('/root/.vp/BASELINE.json'))['stable_pass'])
missing=sorted(base-passed)
print(f"baseline stable_pass={len(base)} passed_now={len(base&passed)} missing={len(missing)}")
for m in missing[:20]: print("  MISSING", m)
sys.exit(1 if missing else 0)
PY
rc=$?; rm -f "$out"; exit $rc
