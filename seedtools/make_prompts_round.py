#!/usr/bin/env python3
# make_prompts_round.py <suffix> <emphasis text>
# Like make_prompts.py, but each prompt also lists the earlier seeded changes of its property (name + what they need
# to manifest, from /verif/seeded/*/meta.json) so that the agent picks another function, mechanism and trigger.
# The agents still get nothing about the checks themselves.
import json, os, shutil, sys, glob
suffix = sys.argv[1]
emphasis = sys.argv[2] if len(sys.argv) > 2 else ""
here = os.path.dirname(os.path.abspath(__file__))
os.makedirs('/tmp/seedtools', exist_ok=True)
shutil.copy(os.path.join(here, 'runtests.sh'), '/tmp/seedtools/runtests.sh')
os.chmod('/tmp/seedtools/runtests.sh', 0o755)
tmpl = open(os.path.join(here, 'prompt_template.txt')).read()
earlier = {}
for d in sorted(glob.glob(os.path.join(here, '..', 'seeded', '*', 'meta.json'))):
    m = json.load(open(d))
    earlier.setdefault(m['property'], []).append('   - %s: %s' % (m['name'], m.get('needs_to_manifest', '')))
for l in open(os.path.join(here, '..', 'properties.jsonl')):
    p = json.loads(l)
    wt = '/tmp/wt-' + p['id'] + suffix
    extra = ''
    if earlier.get(p['id']):
        extra += '\nEARLIER SEEDED CHANGES for this property (already known -- choose a DIFFERENT source function, a different mechanism and a different trigger; do not produce a variation of any of these):\n' + '\n'.join(earlier[p['id']]) + '\n'
    if emphasis:
        extra += '\nEMPHASIS for this round: ' + emphasis + '\n'
    open('/tmp/seedtools/prompt-%s%s.txt' % (p['id'], suffix), 'w').write(tmpl.format(wt=wt, pid=p['id'], title=p['title'], statement=p['statement'], quant=p['quantifier']['text'], anchors=', '.join(p['anchors']['files']), extra=extra))
print('prompts written to /tmp/seedtools')
