#!/bin/bash
# coverage.sh [check ids...] — diagnostic only (no verdict depends on it): builds vcheck with statement coverage of the
# hermes library, runs the quick tier of the named checks (default: all E1/E2 checks) with evidence redirected to scratch,
# and prints the library functions with the most unexecuted statements. Used to find behaviour no check reaches.
set -u
VERIF_DIR="$(cd "$(dirname "$0")" && pwd)"
export VERIF_DIR VERIF_REPO="${VERIF_REPO:-/repo}"
export GOFLAGS=-mod=mod GOPROXY=off GOSUMDB=off GOTOOLCHAIN=local GOWORK=off GOCACHE="$VERIF_DIR/.gocache"
scratch=$(mktemp -d /dev/shm/verifcov-XXXXXX); trap 'rm -rf "$scratch"' EXIT
key=$(echo "$VERIF_REPO" | cksum | cut -d' ' -f1)
modf="$VERIF_DIR/engine/go.gen.$key.mod"
sed "s#=> /repo/hermes#=> $VERIF_REPO/hermes#" "$VERIF_DIR/engine/go.mod" > "$modf"; cp "$VERIF_DIR/engine/go.sum" "${modf%.mod}.sum"
( cd "$VERIF_DIR/engine" && go build -modfile="$modf" -tags verif -cover -coverpkg=github.com/zalf-rpm/Hermes2Go/hermes,verif/cmd/vcheck -o "$scratch/vcheck" ./cmd/vcheck ) || exit 2
mkdir -p "$scratch/cov" "$scratch/out"
for id in ${*:-C01 C02 C04 C05 C06 C07 C08 C09 C10 C12 C13 C14 C15 C16 C18 C19 C20}; do
  GOCOVERDIR="$scratch/cov" VERIF_OUT_DIR="$scratch/out" "$scratch/vcheck" "$id" --tier quick 2>&1 | tail -1 | cut -c1-160
done
go tool covdata textfmt -i="$scratch/cov" -o "$scratch/cov.txt"
out="${COVERAGE_OUT:-/tmp/verif-coverage.txt}"
cp "$scratch/cov.txt" "$out"
python3 - "$scratch/cov.txt" <<'PY'
import sys,collections
tot=cov=0; files=collections.Counter(); miss=collections.defaultdict(list)
seen={}
for l in open(sys.argv[1]):
    if l.startswith('mode:'): continue
    loc,n,c=l.rsplit(' ',2); n=int(n); c=int(c)
    seen[loc]=(n,max(c,seen.get(loc,(n,0))[1]))
for loc,(n,c) in seen.items():
    if '/hermes/' not in loc: continue
    f=loc.split(':')[0].split('/')[-1]; tot+=n
    if c>0: cov+=n
    else: files[f]+=n; miss[f].append(loc.split(':')[1])
print(f"statements={tot} executed={cov} ({100*cov/tot:.1f}%)")
for f,n in files.most_common(40): print(f"  {n:5d} unexecuted in {f}")
PY
echo "profile: $out"
