// Package rewrite copies a Go package and routes every synchronisation construct to the vsched scheduler:
// go statements, channel send/receive/select/close/range, sync.Mutex/RWMutex/WaitGroup/Once/Map.
// Constructs whose semantics the scheduler does not model (timers, atomics, condition variables, contexts) are a
// hard error, never silently kept.
package rewrite

import (
	"bytes"
	"fmt"
	"go/ast"
	"go/format"
	"go/parser"
	"go/token"
	"os"
	"path/filepath"
	"strconv"
	"strings"
)

type Options struct {
	VschedImport string // import path of the scheduler package inside the rewritten module
	Main         bool   // package main: rename main(), capture fmt printing
	Skip         func(name string) bool
}

// Stats of one rewritten package.
type Stats struct {
	Files, Go, Send, Recv, Select, Close, Range, SyncTypes, Prints int
}

var forbiddenCalls = map[string]string{
	"time.After": "timer channel", "time.Tick": "ticker channel", "time.NewTimer": "timer", "time.NewTicker": "ticker", "time.AfterFunc": "timer goroutine",
	"context.WithTimeout": "context deadline", "context.WithDeadline": "context deadline", "context.WithCancel": "context cancellation",
	"sync.NewCond": "condition variable", "runtime.LockOSThread": "OS thread affinity", "signal.Notify": "signal channel",
}

var syncTypes = map[string]bool{"Mutex": true, "RWMutex": true, "WaitGroup": true, "Once": true, "Map": true}

type rw struct {
	fset  *token.FileSet
	opt   Options
	st    *Stats
	err   error
	file  string
	chans map[string]bool // identifiers known to be channels in this file
	tmp   int
}

func (r *rw) fail(pos token.Pos, format string, a ...interface{}) {
	if r.err == nil {
		r.err = fmt.Errorf("%s: %s", r.fset.Position(pos), fmt.Sprintf(format, a...))
	}
}

func vs(name string) ast.Expr { return &ast.SelectorExpr{X: ast.NewIdent("vsched"), Sel: ast.NewIdent(name)} }

func call(fn ast.Expr, args ...ast.Expr) *ast.CallExpr { return &ast.CallExpr{Fun: fn, Args: args} }

func isRecv(e ast.Expr) (*ast.UnaryExpr, bool) {
	for {
		if p, ok := e.(*ast.ParenExpr); ok {
			e = p.X
			continue
		}
		break
	}
	u, ok := e.(*ast.UnaryExpr)
	return u, ok && u.Op == token.ARROW
}

func simpleChanExpr(e ast.Expr) bool {
	switch x := e.(type) {
	case *ast.Ident:
		return true
	case *ast.SelectorExpr:
		return simpleChanExpr(x.X)
	case *ast.ParenExpr:
		return simpleChanExpr(x.X)
	}
	return false
}

// Package rewrites all non-test Go files of srcDir into dstDir.
func Package(srcDir, dstDir string, opt Options) (*Stats, error) {
	st := &Stats{}
	ents, err := os.ReadDir(srcDir)
	if err != nil {
		return nil, err
	}
	if err := os.MkdirAll(dstDir, 0o755); err != nil {
		return nil, err
	}
	for _, e := range ents {
		name := e.Name()
		if e.IsDir() || !strings.HasSuffix(name, ".go") || strings.HasSuffix(name, "_test.go") || (opt.Skip != nil && opt.Skip(name)) {
			continue
		}
		src, err := os.ReadFile(filepath.Join(srcDir, name))
		if err != nil {
			return nil, err
		}
		out, err := File(name, src, opt, st)
		if err != nil {
			return nil, err
		}
		if err := os.WriteFile(filepath.Join(dstDir, name), out, 0o644); err != nil {
			return nil, err
		}
		st.Files++
	}
	return st, nil
}

// File rewrites one source file.
func File(name string, src []byte, opt Options, st *Stats) ([]byte, error) {
	fset := token.NewFileSet()
	f, err := parser.ParseFile(fset, name, src, parser.ParseComments)
	if err != nil {
		return nil, err
	}
	r := &rw{fset: fset, opt: opt, st: st, file: name, chans: map[string]bool{}}
	for _, imp := range f.Imports {
		p, _ := strconv.Unquote(imp.Path.Value)
		if p == "sync/atomic" {
			// atomic operations: the same API from the scheduler's shim package (each operation is a scheduling point)
			imp.Path.Value = strconv.Quote(opt.VschedImport + "/vatomic")
			if imp.Name == nil {
				imp.Name = ast.NewIdent("atomic")
			}
		}
	}
	r.collectChans(f)
	before := *st
	for _, d := range f.Decls {
		if fd, ok := d.(*ast.FuncDecl); ok {
			if opt.Main && fd.Recv == nil && fd.Name.Name == "main" {
				fd.Name.Name = "hermesMain"
			}
			if fd.Body != nil {
				r.block(fd.Body)
			}
		}
	}
	// types and remaining expressions (struct fields, var declarations, composite literals)
	ast.Inspect(f, func(n ast.Node) bool {
		if se, ok := n.(*ast.SelectorExpr); ok {
			if x, ok := se.X.(*ast.Ident); ok && x.Name == "sync" && x.Obj == nil {
				if syncTypes[se.Sel.Name] {
					x.Name = "vsched"
					st.SyncTypes++
				} else {
					r.fail(se.Pos(), "sync.%s is not modelled by the scheduler", se.Sel.Name)
				}
			}
		}
		if ce, ok := n.(*ast.CallExpr); ok {
			if se, ok := ce.Fun.(*ast.SelectorExpr); ok {
				if x, ok := se.X.(*ast.Ident); ok {
					full := x.Name + "." + se.Sel.Name
					if why, bad := forbiddenCalls[full]; bad {
						r.fail(ce.Pos(), "%s (%s) is not modelled by the scheduler", full, why)
					}
					if full == "runtime.Gosched" || full == "time.Sleep" {
						ce.Fun, ce.Args = vs("Yield"), nil
					}
					if opt.Main && x.Name == "fmt" && x.Obj == nil && (se.Sel.Name == "Println" || se.Sel.Name == "Printf" || se.Sel.Name == "Print") {
						x.Name = "vsched"
						st.Prints++
					}
				}
			}
		}
		return true
	})
	if r.err != nil {
		return nil, r.err
	}
	changed := *st != before
	if changed {
		fixImports(f, opt.VschedImport)
	}
	var buf bytes.Buffer
	if err := format.Node(&buf, fset, f); err != nil {
		return nil, fmt.Errorf("%s: %v", name, err)
	}
	return buf.Bytes(), nil
}

func (r *rw) collectChans(f *ast.File) {
	mark := func(names []*ast.Ident, t ast.Expr) {
		if _, ok := t.(*ast.ChanType); ok {
			for _, n := range names {
				r.chans[n.Name] = true
			}
		}
	}
	ast.Inspect(f, func(n ast.Node) bool {
		switch x := n.(type) {
		case *ast.Field:
			mark(x.Names, x.Type)
		case *ast.ValueSpec:
			if x.Type != nil {
				mark(x.Names, x.Type)
			}
			for i, v := range x.Values {
				if isMakeChan(v) && i < len(x.Names) {
					r.chans[x.Names[i].Name] = true
				}
			}
		case *ast.AssignStmt:
			for i, v := range x.Rhs {
				if isMakeChan(v) && i < len(x.Lhs) {
					if id, ok := x.Lhs[i].(*ast.Ident); ok {
						r.chans[id.Name] = true
					}
				}
			}
		}
		return true
	})
}

func isMakeChan(e ast.Expr) bool {
	c, ok := e.(*ast.CallExpr)
	if !ok || len(c.Args) == 0 {
		return false
	}
	id, ok := c.Fun.(*ast.Ident)
	if !ok || id.Name != "make" {
		return false
	}
	_, ok = c.Args[0].(*ast.ChanType)
	return ok
}

// exprs rewrites receive expressions and close() calls inside an expression tree (not descending into function literals' statements, which block() handles).
func (r *rw) expr(e ast.Expr) ast.Expr {
	if e == nil {
		return nil
	}
	switch x := e.(type) {
	case *ast.UnaryExpr:
		x.X = r.expr(x.X)
		if x.Op == token.ARROW {
			r.st.Recv++
			return call(vs("Recv"), x.X)
		}
	case *ast.ParenExpr:
		x.X = r.expr(x.X)
	case *ast.BinaryExpr:
		x.X, x.Y = r.expr(x.X), r.expr(x.Y)
	case *ast.CallExpr:
		x.Fun = r.expr(x.Fun)
		for i := range x.Args {
			x.Args[i] = r.expr(x.Args[i])
		}
		if id, ok := x.Fun.(*ast.Ident); ok && id.Name == "close" && len(x.Args) == 1 && id.Obj == nil {
			r.st.Close++
			x.Fun = vs("Close")
		}
	case *ast.FuncLit:
		r.block(x.Body)
	case *ast.SelectorExpr:
		x.X = r.expr(x.X)
	case *ast.IndexExpr:
		x.X, x.Index = r.expr(x.X), r.expr(x.Index)
	case *ast.SliceExpr:
		x.X, x.Low, x.High, x.Max = r.expr(x.X), r.expr(x.Low), r.expr(x.High), r.expr(x.Max)
	case *ast.StarExpr:
		x.X = r.expr(x.X)
	case *ast.TypeAssertExpr:
		x.X = r.expr(x.X)
	case *ast.KeyValueExpr:
		x.Key, x.Value = r.expr(x.Key), r.expr(x.Value)
	case *ast.CompositeLit:
		for i := range x.Elts {
			x.Elts[i] = r.expr(x.Elts[i])
		}
	}
	return e
}

func (r *rw) exprs(es []ast.Expr) {
	for i := range es {
		es[i] = r.expr(es[i])
	}
}

func (r *rw) block(b *ast.BlockStmt) {
	if b == nil {
		return
	}
	b.List = r.stmts(b.List)
}

func (r *rw) stmts(list []ast.Stmt) []ast.Stmt {
	for i := range list {
		list[i] = r.stmt(list[i])
	}
	return list
}

func (r *rw) stmt(s ast.Stmt) ast.Stmt {
	switch x := s.(type) {
	case nil:
		return nil
	case *ast.BlockStmt:
		r.block(x)
	case *ast.ExprStmt:
		x.X = r.expr(x.X)
	case *ast.SendStmt:
		r.st.Send++
		return &ast.ExprStmt{X: call(vs("Send"), r.expr(x.Chan), r.expr(x.Value))}
	case *ast.AssignStmt:
		if len(x.Lhs) == 2 && len(x.Rhs) == 1 {
			if u, ok := isRecv(x.Rhs[0]); ok {
				r.st.Recv++
				x.Rhs[0] = call(vs("Recv2"), r.expr(u.X))
				r.exprs(x.Lhs)
				return x
			}
		}
		r.exprs(x.Lhs)
		r.exprs(x.Rhs)
	case *ast.DeclStmt:
		if gd, ok := x.Decl.(*ast.GenDecl); ok {
			for _, sp := range gd.Specs {
				if vsp, ok := sp.(*ast.ValueSpec); ok {
					if len(vsp.Names) == 2 && len(vsp.Values) == 1 {
						if u, ok := isRecv(vsp.Values[0]); ok {
							r.st.Recv++
							vsp.Values[0] = call(vs("Recv2"), r.expr(u.X))
							continue
						}
					}
					r.exprs(vsp.Values)
				}
			}
		}
	case *ast.GoStmt:
		return r.goStmt(x)
	case *ast.DeferStmt:
		x.Call.Fun = r.expr(x.Call.Fun)
		r.exprs(x.Call.Args)
	case *ast.ReturnStmt:
		r.exprs(x.Results)
	case *ast.IfStmt:
		x.Init = r.stmt(x.Init)
		x.Cond = r.expr(x.Cond)
		r.block(x.Body)
		x.Else = r.stmt(x.Else)
	case *ast.ForStmt:
		x.Init = r.stmt(x.Init)
		x.Cond = r.expr(x.Cond)
		x.Post = r.stmt(x.Post)
		r.block(x.Body)
	case *ast.RangeStmt:
		x.X = r.expr(x.X)
		r.block(x.Body)
		if r.isChan(x.X) {
			return r.rangeChan(x)
		}
	case *ast.SwitchStmt:
		x.Init = r.stmt(x.Init)
		x.Tag = r.expr(x.Tag)
		r.block(x.Body)
	case *ast.TypeSwitchStmt:
		x.Init = r.stmt(x.Init)
		x.Assign = r.stmt(x.Assign)
		r.block(x.Body)
	case *ast.CaseClause:
		r.exprs(x.List)
		x.Body = r.stmts(x.Body)
	case *ast.LabeledStmt:
		x.Stmt = r.stmt(x.Stmt)
	case *ast.IncDecStmt:
		x.X = r.expr(x.X)
	case *ast.SelectStmt:
		return r.selectStmt(x)
	case *ast.CommClause:
		r.fail(x.Pos(), "communication clause outside a select statement")
	}
	return s
}

func (r *rw) isChan(e ast.Expr) bool {
	switch x := e.(type) {
	case *ast.Ident:
		return r.chans[x.Name]
	case *ast.SelectorExpr:
		return r.chans[x.Sel.Name]
	case *ast.ParenExpr:
		return r.isChan(x.X)
	}
	return false
}

// go f(a, b)  =>  { _vf := f; _va0, _va1 := a, b; vsched.Go(func() { _vf(_va0, _va1) }) }
func (r *rw) goStmt(g *ast.GoStmt) ast.Stmt {
	r.st.Go++
	r.tmp++
	n := r.tmp
	c := g.Call
	c.Fun = r.expr(c.Fun)
	r.exprs(c.Args)
	fn := ast.NewIdent(fmt.Sprintf("_vf%d", n))
	var list []ast.Stmt
	list = append(list, &ast.AssignStmt{Lhs: []ast.Expr{fn}, Tok: token.DEFINE, Rhs: []ast.Expr{c.Fun}})
	var args []ast.Expr
	for i, a := range c.Args {
		id := ast.NewIdent(fmt.Sprintf("_va%d_%d", n, i))
		list = append(list, &ast.AssignStmt{Lhs: []ast.Expr{id}, Tok: token.DEFINE, Rhs: []ast.Expr{a}})
		args = append(args, id)
	}
	inner := &ast.CallExpr{Fun: fn, Args: args, Ellipsis: c.Ellipsis}
	lit := &ast.FuncLit{Type: &ast.FuncType{Params: &ast.FieldList{}}, Body: &ast.BlockStmt{List: []ast.Stmt{&ast.ExprStmt{X: inner}}}}
	list = append(list, &ast.ExprStmt{X: call(vs("Go"), lit)})
	return &ast.BlockStmt{List: list}
}

// for v := range ch { body }  =>  for { v, _vok := vsched.Recv2(ch); if !_vok { break }; body }
func (r *rw) rangeChan(x *ast.RangeStmt) ast.Stmt {
	r.st.Range++
	r.tmp++
	ok := ast.NewIdent(fmt.Sprintf("_vok%d", r.tmp))
	var key ast.Expr = ast.NewIdent("_")
	tok := token.DEFINE
	if x.Key != nil {
		key = x.Key
		tok = x.Tok
	}
	if x.Value != nil {
		r.fail(x.Pos(), "range over a channel with two iteration variables")
	}
	recv := &ast.AssignStmt{Lhs: []ast.Expr{key, ok}, Tok: token.DEFINE, Rhs: []ast.Expr{call(vs("Recv2"), x.X)}}
	if tok == token.ASSIGN {
		// v = ...: declare ok separately
		recv = &ast.AssignStmt{Lhs: []ast.Expr{key, ok}, Tok: token.ASSIGN, Rhs: []ast.Expr{call(vs("Recv2"), x.X)}}
		decl := &ast.DeclStmt{Decl: &ast.GenDecl{Tok: token.VAR, Specs: []ast.Spec{&ast.ValueSpec{Names: []*ast.Ident{ok}, Type: ast.NewIdent("bool")}}}}
		brk := &ast.IfStmt{Cond: &ast.UnaryExpr{Op: token.NOT, X: ok}, Body: &ast.BlockStmt{List: []ast.Stmt{&ast.BranchStmt{Tok: token.BREAK}}}}
		body := append([]ast.Stmt{recv, brk}, x.Body.List...)
		return &ast.BlockStmt{List: []ast.Stmt{decl, &ast.ForStmt{Body: &ast.BlockStmt{List: body}}}}
	}
	brk := &ast.IfStmt{Cond: &ast.UnaryExpr{Op: token.NOT, X: ok}, Body: &ast.BlockStmt{List: []ast.Stmt{&ast.BranchStmt{Tok: token.BREAK}}}}
	body := append([]ast.Stmt{recv, brk}, x.Body.List...)
	return &ast.ForStmt{Body: &ast.BlockStmt{List: body}}
}

func (r *rw) selectStmt(s *ast.SelectStmt) ast.Stmt {
	r.st.Select++
	var cases []ast.Expr
	var clauses []ast.Stmt
	hasDefault := false
	var defBody []ast.Stmt
	idx := 0
	for _, c := range s.Body.List {
		cc := c.(*ast.CommClause)
		body := r.stmts(cc.Body)
		if cc.Comm == nil {
			hasDefault = true
			defBody = body
			continue
		}
		var pre []ast.Stmt
		switch cm := cc.Comm.(type) {
		case *ast.SendStmt:
			if !simpleChanExpr(cm.Chan) {
				r.fail(cm.Pos(), "select case on a channel expression with possible side effects")
			}
			cases = append(cases, call(vs("CaseSend"), cm.Chan, r.expr(cm.Value)))
		case *ast.ExprStmt:
			u, ok := isRecv(cm.X)
			if !ok || !simpleChanExpr(u.X) {
				r.fail(cm.Pos(), "unsupported select case")
				continue
			}
			cases = append(cases, call(vs("CaseRecv"), u.X))
		case *ast.AssignStmt:
			u, ok := isRecv(cm.Rhs[0])
			if !ok || !simpleChanExpr(u.X) {
				r.fail(cm.Pos(), "unsupported select case")
				continue
			}
			cases = append(cases, call(vs("CaseRecv"), u.X))
			lhs := append([]ast.Expr{}, cm.Lhs...)
			if len(lhs) == 1 {
				lhs = append(lhs, ast.NewIdent("_"))
			}
			pre = append(pre, &ast.AssignStmt{Lhs: lhs, Tok: cm.Tok, Rhs: []ast.Expr{call(vs("SelRecv"), u.X)}})
			// a declared but unused variable would not compile: keep it referenced
			if cm.Tok == token.DEFINE {
				for _, l := range cm.Lhs {
					if id, ok := l.(*ast.Ident); ok && id.Name != "_" {
						pre = append(pre, &ast.AssignStmt{Lhs: []ast.Expr{ast.NewIdent("_")}, Tok: token.ASSIGN, Rhs: []ast.Expr{ast.NewIdent(id.Name)}})
					}
				}
			}
		default:
			r.fail(cc.Pos(), "unsupported select case")
		}
		clauses = append(clauses, &ast.CaseClause{List: []ast.Expr{&ast.BasicLit{Kind: token.INT, Value: strconv.Itoa(idx)}}, Body: append(pre, body...)})
		idx++
	}
	// the switch gets a default clause in every case, so that it is a terminating statement exactly when the select
	// was one (a function may end with a select whose clauses all return): the select's own default clause, or an
	// unreachable one (Select only returns the indices of the listed cases)
	if hasDefault {
		clauses = append(clauses, &ast.CaseClause{Body: defBody})
	} else {
		clauses = append(clauses, &ast.CaseClause{Body: []ast.Stmt{&ast.ExprStmt{X: call(ast.NewIdent("panic"), &ast.BasicLit{Kind: token.STRING, Value: `"vsched: select returned an index without a case"`})}}})
	}
	args := append([]ast.Expr{ast.NewIdent(strconv.FormatBool(hasDefault))}, cases...)
	return &ast.SwitchStmt{Tag: call(vs("Select"), args...), Body: &ast.BlockStmt{List: clauses}}
}

// fixImports adds the scheduler import and drops "sync" when nothing refers to it any more.
func fixImports(f *ast.File, vsImport string) {
	usesSync, usesFmt := false, false
	ast.Inspect(f, func(n ast.Node) bool {
		if se, ok := n.(*ast.SelectorExpr); ok {
			if x, ok := se.X.(*ast.Ident); ok && x.Obj == nil {
				if x.Name == "sync" {
					usesSync = true
				}
				if x.Name == "fmt" {
					usesFmt = true
				}
			}
		}
		return true
	})
	added := false
	for _, d := range f.Decls {
		gd, ok := d.(*ast.GenDecl)
		if !ok || gd.Tok != token.IMPORT {
			continue
		}
		var specs []ast.Spec
		for _, s := range gd.Specs {
			is := s.(*ast.ImportSpec)
			p, _ := strconv.Unquote(is.Path.Value)
			if p == "sync" && !usesSync && is.Name == nil {
				continue
			}
			if p == "fmt" && !usesFmt && is.Name == nil {
				continue
			}
			specs = append(specs, s)
		}
		if !added {
			specs = append(specs, &ast.ImportSpec{Path: &ast.BasicLit{Kind: token.STRING, Value: strconv.Quote(vsImport)}})
			added = true
		}
		gd.Specs = specs
		if gd.Lparen == token.NoPos && len(specs) > 1 {
			gd.Lparen = gd.Pos()
			gd.Rparen = gd.End()
		}
	}
	if !added {
		gd := &ast.GenDecl{Tok: token.IMPORT, Specs: []ast.Spec{&ast.ImportSpec{Path: &ast.BasicLit{Kind: token.STRING, Value: strconv.Quote(vsImport)}}}}
		f.Decls = append([]ast.Decl{gd}, f.Decls...)
	}
	// the import list changed: drop the cached import slice positions
	f.Imports = nil
}
