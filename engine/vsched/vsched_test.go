package vsched

import "testing"

// a toy: two workers increment a shared counter non-atomically under/without a lock.
func TestExploreFindsLostUpdate(t *testing.T) {
	lost := 0
	body := func(locked bool) func() {
		return func() {
			counter := 0
			var mu Mutex
			done := make(chan int)
			w := func() {
				if locked {
					mu.Lock()
				}
				v := counter
				Yield()
				counter = v + 1
				if locked {
					mu.Unlock()
				}
				Send(done, 1)
			}
			Go(w)
			Go(w)
			Recv(done)
			Recv(done)
			if counter != 2 {
				lost++
			}
		}
	}
	r := Explore(Config{Bound: 2, Body: body(false)})
	if lost == 0 {
		t.Fatalf("lost update not found: %+v", r)
	}
	t.Logf("unlocked: execs=%d states=%d pruned=%d lost=%d", r.Executions, r.States, r.Pruned, lost)
	lost = 0
	r = Explore(Config{Bound: 2, Body: body(true)})
	if lost != 0 || len(r.Failures) != 0 {
		t.Fatalf("false alarm with lock: lost=%d %+v", lost, r.Failures)
	}
	t.Logf("locked: execs=%d states=%d pruned=%d", r.Executions, r.States, r.Pruned)
}

func TestDeadlockDetected(t *testing.T) {
	r := Explore(Config{Bound: 1, Body: func() {
		var a, b Mutex
		done := make(chan int)
		Go(func() { a.Lock(); Yield(); b.Lock(); b.Unlock(); a.Unlock(); Send(done, 1) })
		Go(func() { b.Lock(); Yield(); a.Lock(); a.Unlock(); b.Unlock(); Send(done, 1) })
		Recv(done)
		Recv(done)
	}})
	found := false
	for _, f := range r.Failures {
		if f.Class == "deadlock" {
			found = true
		}
	}
	if !found {
		t.Fatalf("deadlock not found: %+v", r)
	}
	t.Logf("execs=%d failures=%v", r.Executions, r.Failures)
}

func TestSelect(t *testing.T) {
	seen := map[int]bool{}
	r := Explore(Config{Bound: 2, Body: func() {
		a, b := make(chan int), make(chan string)
		Go(func() { Send(a, 1) })
		Go(func() { Send(b, "x") })
		for i := 0; i < 2; i++ {
			switch Select(false, CaseRecv(a), CaseRecv(b)) {
			case 0:
				v, _ := SelRecv(a)
				seen[v*10+i] = true
			case 1:
				SelRecv(b)
				seen[100+i] = true
			}
		}
	}})
	if len(seen) != 4 || len(r.Failures) != 0 {
		t.Fatalf("select orders seen %v failures %v", seen, r.Failures)
	}
}
