// Package vsched is a controlled cooperative scheduler plus a preemption-bounded depth-first explorer for Go code
// whose synchronisation operations have been rewritten to call it (see cmd/vrewrite). Exactly one managed goroutine
// runs at a time; every operation is a scheduling point at which the explorer decides who continues.
//
// The package is copied into the rewritten module, so it must not import anything outside the standard library.
package vsched

import (
	"fmt"
	"hash/fnv"
	"reflect"
	"sort"
	"strings"
	"sync"
)

type opKind int

const (
	opReady opKind = iota // can continue (start, yield, after a completed operation of the partner)
	opLock
	opSend
	opRecv
	opSelect
	opWait // WaitGroup.Wait
)

var kindName = []string{"ready", "lock", "send", "recv", "select", "wait"}

type selCase struct {
	send bool
	ch   uintptr
	cap  int
	val  interface{}
}

type op struct {
	kind   opKind
	ch     uintptr // channel identity
	cap    int
	val    interface{}
	mu     *Mutex
	wg     *WaitGroup
	cases  []selCase
	hasDef bool
	local  int // goroutine-local name of the object
}

// G is a managed goroutine.
type G struct {
	id      string
	resume  chan struct{}
	pending *op
	done    bool
	hist    uint64
	points  int
	spawned int
	objs    map[interface{}]int
	// result of the last operation
	recvVal interface{}
	recvOK  bool
	selIdx  int
	panicV  interface{}
}

type chanState struct {
	buf    []bufItem
	closed bool
}
type bufItem struct {
	val  interface{}
	from string
	hist uint64
}

type transition struct {
	g       *G
	alt     int // select case index, -1 otherwise
	partner *G  // rendezvous partner
	palt    int // partner's select case index
}

// Point of one execution's trace.
type Point struct {
	N         int    // number of enabled transitions
	Chosen    int    // index taken
	Key       uint64 // global state key before the choice
	LastAlive bool   // the goroutine that ran last is the actor of an enabled transition (switching away costs a preemption)
	LastFirst bool   // transition 0 belongs to the goroutine that ran last
	Desc      string // description of the chosen transition
}

// Exec is the result of one controlled execution.
type Exec struct {
	Output   string // text printed through Println/Printf/Print
	Points   []Point
	Deadlock bool
	Blocked  []string // pending operations at deadlock
	Panic    string
	Capped   bool
	Diverged string
}

type exec struct {
	out      strings.Builder
	mu       sync.Mutex
	gs       []*G
	running  *G
	last     *G
	parked   chan struct{}
	chans    map[uintptr]*chanState
	prefix   []int
	res      *Exec
	maxPts   int
	stop     bool
	describe bool
}

var cur *exec // the execution in progress (executions never overlap)

func h64(parts ...interface{}) uint64 {
	h := fnv.New64a()
	for _, p := range parts {
		fmt.Fprintf(h, "%v|", p)
	}
	return h.Sum64()
}

func (g *G) localName(obj interface{}) int {
	if n, ok := g.objs[obj]; ok {
		return n
	}
	n := len(g.objs) + 1
	g.objs[obj] = n
	return n
}

func (g *G) note(parts ...interface{}) {
	g.hist = h64(append([]interface{}{g.hist}, parts...)...)
}

func (e *exec) newG(parent *G) *G {
	id := "0"
	if parent != nil {
		parent.spawned++
		id = fmt.Sprintf("%s.%d", parent.id, parent.spawned)
	}
	g := &G{id: id, resume: make(chan struct{}), pending: &op{kind: opReady}, objs: map[interface{}]int{}}
	e.gs = append(e.gs, g)
	sort.Slice(e.gs, func(i, j int) bool { return e.gs[i].id < e.gs[j].id })
	return g
}

func (e *exec) start(g *G, fn func()) {
	go func() {
		<-g.resume
		defer func() {
			if r := recover(); r != nil {
				if _, ok := r.(abortExec); !ok {
					g.panicV = r
				}
			}
			g.done = true
			g.pending = nil
			e.parked <- struct{}{}
		}()
		fn()
	}()
}

type abortExec struct{}

// point parks the running goroutine on op until the controller resumes it.
func point(o *op) *G {
	e := cur
	g := e.running
	g.pending = o
	g.points++
	e.parked <- struct{}{}
	<-g.resume
	if e.stop {
		panic(abortExec{})
	}
	return g
}

func chanID(ch interface{}) (uintptr, int) {
	v := reflect.ValueOf(ch)
	return v.Pointer(), v.Cap()
}

func (e *exec) chanOf(id uintptr) *chanState {
	c := e.chans[id]
	if c == nil {
		c = &chanState{}
		e.chans[id] = c
	}
	return c
}

// enabled lists the enabled transitions in canonical order: the goroutine that ran last first, then ascending ids.
func (e *exec) enabled() []transition {
	var order []*G
	if e.last != nil && !e.last.done {
		order = append(order, e.last)
	}
	for _, g := range e.gs {
		if g != e.last && !g.done {
			order = append(order, g)
		}
	}
	senders := func(ch uintptr) []transition { // pending unbuffered senders on ch as (partner, palt)
		var out []transition
		for _, s := range e.gs {
			if s.done || s.pending == nil {
				continue
			}
			switch s.pending.kind {
			case opSend:
				if s.pending.ch == ch && s.pending.cap == 0 {
					out = append(out, transition{partner: s, palt: -1})
				}
			case opSelect:
				for i, c := range s.pending.cases {
					if c.send && c.ch == ch && c.cap == 0 {
						out = append(out, transition{partner: s, palt: i})
					}
				}
			}
		}
		return out
	}
	var ts []transition
	for _, g := range order {
		o := g.pending
		if o == nil {
			continue
		}
		switch o.kind {
		case opReady:
			ts = append(ts, transition{g: g, alt: -1})
		case opLock:
			if o.mu.owner == nil {
				ts = append(ts, transition{g: g, alt: -1})
			}
		case opWait:
			if o.wg.n <= 0 {
				ts = append(ts, transition{g: g, alt: -1})
			}
		case opSend:
			if o.cap > 0 {
				if c := e.chanOf(o.ch); len(c.buf) < o.cap || c.closed {
					ts = append(ts, transition{g: g, alt: -1})
				}
			}
		case opRecv:
			c := e.chanOf(o.ch)
			if len(c.buf) > 0 || c.closed {
				ts = append(ts, transition{g: g, alt: -1})
			} else {
				for _, s := range senders(o.ch) {
					if s.partner != g {
						ts = append(ts, transition{g: g, alt: -1, partner: s.partner, palt: s.palt})
					}
				}
			}
		case opSelect:
			n := 0
			for i, cs := range o.cases {
				c := e.chanOf(cs.ch)
				if cs.send {
					if cs.cap > 0 && (len(c.buf) < cs.cap || c.closed) {
						ts = append(ts, transition{g: g, alt: i})
						n++
					}
				} else {
					if len(c.buf) > 0 || c.closed {
						ts = append(ts, transition{g: g, alt: i})
						n++
					} else {
						for _, s := range senders(cs.ch) {
							if s.partner != g {
								ts = append(ts, transition{g: g, alt: i, partner: s.partner, palt: s.palt})
								n++
							}
						}
					}
				}
			}
			if n == 0 && o.hasDef {
				ts = append(ts, transition{g: g, alt: len(o.cases)})
			}
		}
	}
	return ts
}

func (e *exec) apply(t transition) {
	g, o := t.g, t.g.pending
	ready := &op{kind: opReady}
	switch o.kind {
	case opReady:
		g.note("r")
	case opLock:
		o.mu.owner = g
		// the critical sections of a mutex are ordered: what this goroutine may read under the lock depends on who held it before
		if o.mu.ValueTracked {
			g.note("lock", o.local) // what is read under this lock enters the history through Note (see Mutex.ValueTracked)
		} else {
			g.note("lock", o.local, o.mu.lastRelease)
		}
	case opWait:
		g.note("wait", o.local)
	case opSend:
		c := e.chanOf(o.ch)
		if c.closed {
			g.pending = ready
			g.panicV = "send on closed channel"
			return
		}
		c.buf = append(c.buf, bufItem{o.val, g.id, g.hist})
		g.note("send", o.local)
	case opRecv, opSelect:
		ch, local := o.ch, o.local
		if o.kind == opSelect {
			g.selIdx = t.alt
			if t.alt == len(o.cases) { // default
				g.note("default")
				break
			}
			cs := o.cases[t.alt]
			ch, local = cs.ch, g.localName(cs.ch)
			if cs.send {
				c := e.chanOf(cs.ch)
				c.buf = append(c.buf, bufItem{cs.val, g.id, g.hist})
				g.note("selsend", local, t.alt)
				break
			}
		}
		c := e.chanOf(ch)
		switch {
		case t.partner != nil:
			p := t.partner
			var v interface{}
			if p.pending.kind == opSend {
				v = p.pending.val
			} else {
				v = p.pending.cases[t.palt].val
				p.selIdx = t.palt
			}
			g.recvVal, g.recvOK = v, true
			g.note("recv", local, t.alt, p.id, p.hist)
			p.note("sent", p.localName(ch), g.id)
			p.pending = ready
		case len(c.buf) > 0:
			it := c.buf[0]
			c.buf = c.buf[1:]
			g.recvVal, g.recvOK = it.val, true
			g.note("recvbuf", local, t.alt, it.from, it.hist)
		default: // closed
			g.recvVal, g.recvOK = nil, false
			g.note("recvclosed", local, t.alt)
		}
	}
	g.pending = ready
}

func (e *exec) key() uint64 {
	var b strings.Builder
	for _, g := range e.gs {
		if g.done {
			fmt.Fprintf(&b, "%s:done:%x;", g.id, g.hist)
			continue
		}
		o := g.pending
		fmt.Fprintf(&b, "%s:%x:%d:%d", g.id, g.hist, o.kind, o.local)
		if o.kind == opSelect {
			for _, c := range o.cases {
				fmt.Fprintf(&b, ",%v%d", c.send, g.localName(c.ch))
			}
		}
		b.WriteByte(';')
	}
	// locked mutexes by owner, buffered channel contents
	var locks []string
	for _, g := range e.gs {
		for obj, n := range g.objs {
			if m, ok := obj.(*Mutex); ok && m.owner == g {
				locks = append(locks, fmt.Sprintf("L%s/%d", g.id, n))
			}
		}
	}
	sort.Strings(locks)
	b.WriteString(strings.Join(locks, ";"))
	var bufs []string
	for _, c := range e.chans {
		if len(c.buf) > 0 || c.closed {
			s := fmt.Sprintf("c%v", c.closed)
			for _, it := range c.buf {
				s += fmt.Sprintf(",%s/%x", it.from, it.hist)
			}
			bufs = append(bufs, s)
		}
	}
	sort.Strings(bufs)
	b.WriteString(strings.Join(bufs, ";"))
	if e.last != nil {
		b.WriteString("|last=" + e.last.id)
	}
	return h64(b.String())
}

func (t transition) String() string {
	s := t.g.id + ":" + kindName[t.g.pending.kind]
	if t.alt >= 0 {
		s += fmt.Sprintf("[case %d]", t.alt)
	}
	if t.partner != nil {
		s += "<-" + t.partner.id
	}
	return s
}

// Run executes body under the scheduler following the choice prefix (index 0 afterwards).
func Run(prefix []int, maxPoints int, describe bool, body func()) *Exec {
	e := &exec{parked: make(chan struct{}), chans: map[uintptr]*chanState{}, prefix: prefix, res: &Exec{}, maxPts: maxPoints, describe: describe}
	cur = e
	g0 := e.newG(nil)
	e.start(g0, body)
	e.running = nil
	first := true
	for {
		if !first {
			<-e.parked // the running goroutine reached a point or finished
		}
		first = false
		if e.running != nil && e.running.panicV != nil && e.res.Panic == "" {
			e.res.Panic = fmt.Sprintf("goroutine %s: %v", e.running.id, e.running.panicV)
			break
		}
		alive := 0
		for _, g := range e.gs {
			if !g.done {
				alive++
			}
		}
		if alive == 0 {
			break
		}
		ts := e.enabled()
		if len(ts) == 0 {
			e.res.Deadlock = true
			for _, g := range e.gs {
				if !g.done {
					e.res.Blocked = append(e.res.Blocked, g.id+":"+kindName[g.pending.kind])
				}
			}
			break
		}
		if len(e.res.Points) >= e.maxPts {
			e.res.Capped = true
			break
		}
		i := len(e.res.Points)
		choice := 0
		if i < len(e.prefix) {
			choice = e.prefix[i]
			if choice >= len(ts) {
				e.res.Diverged = fmt.Sprintf("point %d: prefix asks for choice %d, only %d transitions enabled", i, choice, len(ts))
				break
			}
		}
		p := Point{N: len(ts), Chosen: choice, Key: e.key()}
		if e.last != nil && !e.last.done {
			for _, t := range ts {
				if t.g == e.last {
					p.LastAlive = true
				}
			}
			p.LastFirst = ts[0].g == e.last
		}
		t := ts[choice]
		if describe {
			p.Desc = t.String()
		}
		e.res.Points = append(e.res.Points, p)
		e.apply(t)
		e.last = t.g
		e.running = t.g
		t.g.resume <- struct{}{}
	}
	// an execution that ended early (deadlock, panic, cap, divergence) leaves goroutines parked: release them so that
	// they unwind (they panic with abortExec at their next point and finish)
	e.stop = true
	for {
		n := 0
		for _, g := range e.gs {
			if !g.done {
				n++
				e.running = g
				g.resume <- struct{}{}
				<-e.parked
				break
			}
		}
		if n == 0 {
			break
		}
	}
	e.res.Output = e.out.String()
	cur = nil
	return e.res
}

// Println, Printf and Print replace the fmt functions of package main: the text is captured per execution.
func Println(a ...interface{}) (int, error) {
	if cur == nil {
		return fmt.Println(a...)
	}
	return fmt.Fprintln(&cur.out, a...)
}
func Printf(format string, a ...interface{}) (int, error) {
	if cur == nil {
		return fmt.Printf(format, a...)
	}
	return fmt.Fprintf(&cur.out, format, a...)
}
func Print(a ...interface{}) (int, error) {
	if cur == nil {
		return fmt.Print(a...)
	}
	return fmt.Fprint(&cur.out, a...)
}

// ---- API used by rewritten code -------------------------------------------------------------------------------------

// Go starts fn as a managed goroutine; the spawner yields so that the child may run first.
func Go(fn func()) {
	e := cur
	if e == nil {
		go fn()
		return
	}
	g := e.newG(e.running)
	e.start(g, fn)
	point(&op{kind: opReady})
}

// Yield is a pure scheduling point.
func Yield() {
	if cur == nil {
		return
	}
	point(&op{kind: opReady})
}

// Note mixes a data hash into the running goroutine's history (used for state keys).
func Note(parts ...interface{}) {
	if cur == nil || cur.running == nil {
		return
	}
	cur.running.note(parts...)
}

func Send[T any](ch chan<- T, v T) {
	if cur == nil {
		ch <- v
		return
	}
	id, cp := chanID(ch)
	g := cur.running
	point(&op{kind: opSend, ch: id, cap: cp, val: v, local: g.localName(id)})
	if g.panicV != nil {
		panic(g.panicV)
	}
}

func Recv[T any](ch <-chan T) T {
	v, _ := Recv2(ch)
	return v
}

func Recv2[T any](ch <-chan T) (T, bool) {
	if cur == nil {
		v, ok := <-ch
		return v, ok
	}
	id, cp := chanID(ch)
	g := cur.running
	point(&op{kind: opRecv, ch: id, cap: cp, local: g.localName(id)})
	var zero T
	if !g.recvOK {
		return zero, false
	}
	v, _ := g.recvVal.(T)
	return v, true
}

// Close closes a channel in the model (the real channel is never used for communication).
func Close[T any](ch chan<- T) {
	if cur == nil {
		close(ch)
		return
	}
	id, _ := chanID(ch)
	point(&op{kind: opReady})
	c := cur.chanOf(id)
	if c.closed {
		panic("close of closed channel")
	}
	c.closed = true
	cur.running.note("close", cur.running.localName(id))
}

// SelCase describes one case of a select statement.
type SelCase struct {
	c        selCase
	rch, rv  reflect.Value // the real channel and value (used only outside a controlled execution)
}

func CaseRecv[T any](ch <-chan T) SelCase {
	id, cp := chanID(ch)
	return SelCase{c: selCase{ch: id, cap: cp}, rch: reflect.ValueOf(ch)}
}
func CaseSend[T any](ch chan<- T, v T) SelCase {
	id, cp := chanID(ch)
	return SelCase{c: selCase{send: true, ch: id, cap: cp, val: v}, rch: reflect.ValueOf(ch), rv: reflect.ValueOf(&v).Elem()}
}

// outside a controlled execution (reference runs of the driver, which are sequential) a select is a real select
var (
	uncMu   sync.Mutex
	uncRecv = map[uintptr]reflect.Value{} // goroutine id is not available: keyed by channel id, read back by SelRecv at once
	uncOK   = map[uintptr]bool{}
)

func realSelect(hasDefault bool, cases []SelCase) int {
	var rc []reflect.SelectCase
	for _, c := range cases {
		if c.c.send {
			rc = append(rc, reflect.SelectCase{Dir: reflect.SelectSend, Chan: c.rch, Send: c.rv})
		} else {
			rc = append(rc, reflect.SelectCase{Dir: reflect.SelectRecv, Chan: c.rch})
		}
	}
	if hasDefault {
		rc = append(rc, reflect.SelectCase{Dir: reflect.SelectDefault})
	}
	i, v, ok := reflect.Select(rc)
	if i < len(cases) && !cases[i].c.send {
		uncMu.Lock()
		uncRecv[cases[i].c.ch], uncOK[cases[i].c.ch] = v, ok
		uncMu.Unlock()
	}
	return i
}

// Select blocks until one case can proceed and returns its index; hasDefault: index len(cases) is the default branch.
func Select(hasDefault bool, cases ...SelCase) int {
	if cur == nil {
		return realSelect(hasDefault, cases)
	}
	o := &op{kind: opSelect, hasDef: hasDefault}
	for _, c := range cases {
		o.cases = append(o.cases, c.c)
	}
	g := point(o)
	return g.selIdx
}

// SelRecv returns the value received by the select case just taken.
func SelRecv[T any](ch <-chan T) (T, bool) {
	var zero T
	if cur == nil {
		id, _ := chanID(ch)
		uncMu.Lock()
		v, ok := uncRecv[id], uncOK[id]
		delete(uncRecv, id)
		uncMu.Unlock()
		if !ok || !v.IsValid() {
			return zero, false
		}
		t, _ := v.Interface().(T)
		return t, true
	}
	g := cur.running
	if !g.recvOK {
		return zero, false
	}
	v, _ := g.recvVal.(T)
	return v, true
}

// Mutex replaces sync.Mutex.
type Mutex struct {
	// ValueTracked: the code under this lock reports every value it reads from the protected data through Note, so the
	// order of critical sections need not enter the goroutine histories (states that differ only in that order and in
	// nothing any goroutine has observed are merged by the explorer).
	ValueTracked bool
	owner        *G
	lastRelease uint64 // hash of (previous owner, its history at release)
	real        sync.Mutex
}

func (m *Mutex) Lock() {
	if cur == nil {
		m.real.Lock()
		return
	}
	g := cur.running
	point(&op{kind: opLock, mu: m, local: g.localName(m)})
}
func (m *Mutex) Unlock() {
	if cur == nil {
		m.real.Unlock()
		return
	}
	if m.owner != cur.running {
		panic("unlock of a mutex not held by this goroutine")
	}
	m.owner = nil
	cur.running.note("unlock", cur.running.localName(m))
	m.lastRelease = h64(cur.running.id, cur.running.hist)
}
func (m *Mutex) TryLock() bool {
	if cur == nil {
		return m.real.TryLock()
	}
	point(&op{kind: opReady})
	if m.owner == nil {
		m.owner = cur.running
		cur.running.note("trylock", 1)
		return true
	}
	cur.running.note("trylock", 0)
	return false
}

// RWMutex is modelled as an exclusive lock (a sound over-approximation of blocking, fewer interleavings of readers).
type RWMutex struct{ Mutex }

func (m *RWMutex) RLock()   { m.Lock() }
func (m *RWMutex) RUnlock() { m.Unlock() }

// WaitGroup replaces sync.WaitGroup.
type WaitGroup struct{ n int }

func (w *WaitGroup) Add(d int) {
	w.n += d
	if cur != nil {
		cur.running.note("wgadd", d)
	}
}
func (w *WaitGroup) Done() {
	if cur != nil {
		point(&op{kind: opReady})
	}
	w.Add(-1)
}
func (w *WaitGroup) Wait() {
	if cur == nil {
		return
	}
	g := cur.running
	point(&op{kind: opWait, wg: w, local: g.localName(w)})
}

// Once replaces sync.Once.
type Once struct {
	m    Mutex
	done bool
}

func (o *Once) Do(f func()) {
	o.m.Lock()
	defer o.m.Unlock()
	if !o.done {
		o.done = true
		f()
	}
}

// Map replaces sync.Map: every operation is a scheduling point and its result enters the goroutine's history.
type Map struct{ m sync.Map }

func (m *Map) pt(op string, key interface{}) {
	if cur != nil {
		point(&op0)
		_ = op
		_ = key
	}
}

var op0 = op{kind: opReady}

func (m *Map) Load(key interface{}) (interface{}, bool) {
	m.pt("load", key)
	v, ok := m.m.Load(key)
	Note("mapload", fmt.Sprint(key), ok, fmt.Sprint(v))
	return v, ok
}
func (m *Map) Store(key, value interface{}) {
	m.pt("store", key)
	m.m.Store(key, value)
	Note("mapstore", fmt.Sprint(key), fmt.Sprint(value))
}
func (m *Map) LoadOrStore(key, value interface{}) (interface{}, bool) {
	m.pt("loadorstore", key)
	v, loaded := m.m.LoadOrStore(key, value)
	Note("maplos", fmt.Sprint(key), loaded, fmt.Sprint(v))
	return v, loaded
}
func (m *Map) Delete(key interface{}) {
	m.pt("delete", key)
	m.m.Delete(key)
	Note("mapdel", fmt.Sprint(key))
}
func (m *Map) Range(f func(key, value interface{}) bool) {
	m.pt("range", nil)
	m.m.Range(f)
}
