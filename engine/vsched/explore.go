package vsched

import (
	"fmt"
	"time"
)

// Config of one exploration.
type Config struct {
	Bound     int           // preemption bound; < 0 = unbounded
	MaxPoints int           // horizon per execution
	MaxExecs  int           // cap on executions (0 = none)
	Deadline  time.Time     // zero = none
	Body      func()        // the program under test (called once per execution, must build its world afresh)
	Check     func(x *Exec) // called after every complete execution (may record violations via Fail)
	NoPrune   bool
	// Shard/Shards split one exploration over processes: the subtrees hanging off the default execution are dealt
	// round-robin; every shard keeps its own visited set (less pruning across shards, same coverage in total).
	Shard, Shards int
}

// Failure is a property violation found in one execution.
type Failure struct {
	Class    string
	What     string
	Schedule []int
}

// Result of an exploration.
type Result struct {
	Executions   int
	States       int // distinct state keys expanded
	Transitions  int // scheduling decisions taken over all executions
	MaxPoints    int
	Pruned       int
	Exhaustive   bool
	CapHit       string
	Failures     []Failure
	BoundReached int
	Outcomes     map[string]int
}

type explorer struct {
	cfg     Config
	res     *Result
	visited map[uint64]int
	curSched []int
}

var curExplorer *explorer

// Fail records a violation for the execution being checked.
func Fail(class, what string) {
	x := curExplorer
	for _, f := range x.res.Failures {
		if f.Class == class {
			return
		}
	}
	x.res.Failures = append(x.res.Failures, Failure{class, what, append([]int{}, x.curSched...)})
}

// Outcome counts a label for the execution being checked.
func Outcome(label string) { curExplorer.res.Outcomes[label]++ }

// Explore enumerates all schedules of cfg.Body up to the preemption bound (iterating the bound 0..Bound).
func Explore(cfg Config) *Result {
	if cfg.MaxPoints == 0 {
		cfg.MaxPoints = 4000
	}
	x := &explorer{cfg: cfg, res: &Result{Exhaustive: true, Outcomes: map[string]int{}}, visited: map[uint64]int{}}
	curExplorer = x
	defer func() { curExplorer = nil }()
	x.explore(nil, 0)
	x.res.States = len(x.visited)
	x.res.BoundReached = cfg.Bound
	return x.res
}

func (x *explorer) capped() bool {
	if x.cfg.MaxExecs > 0 && x.res.Executions >= x.cfg.MaxExecs {
		x.res.Exhaustive, x.res.CapHit = false, fmt.Sprintf("execution cap %d", x.cfg.MaxExecs)
		return true
	}
	if !x.cfg.Deadline.IsZero() && time.Now().After(x.cfg.Deadline) {
		x.res.Exhaustive, x.res.CapHit = false, "time budget"
		return true
	}
	return false
}

// cost of taking alternative alt at point p.
func altCost(p Point, alt int) int {
	if !p.LastAlive {
		return 0
	}
	if p.LastFirst && alt == 0 {
		return 0
	}
	return 1
}

func (x *explorer) explore(prefix []int, used int) {
	if x.capped() {
		return
	}
	e := Run(prefix, x.cfg.MaxPoints, false, x.cfg.Body)
	x.res.Executions++
	x.res.Transitions += len(e.Points)
	if len(e.Points) > x.res.MaxPoints {
		x.res.MaxPoints = len(e.Points)
	}
	sched := make([]int, len(e.Points))
	for i, p := range e.Points {
		sched[i] = p.Chosen
	}
	x.curSched = sched
	switch {
	case e.Diverged != "":
		Fail("harness-divergence", e.Diverged)
		return
	case e.Capped:
		x.res.Exhaustive, x.res.CapHit = false, fmt.Sprintf("horizon of %d points per execution", x.cfg.MaxPoints)
	case e.Deadlock:
		Fail("deadlock", fmt.Sprintf("no goroutine can continue; blocked: %v", e.Blocked))
	case e.Panic != "":
		Fail("panic", e.Panic)
	}
	top := len(prefix) == 0 && x.cfg.Shards > 1
	if x.cfg.Check != nil && !(top && x.cfg.Shard != 0) {
		x.cfg.Check(e)
	}
	subtree := 0
	// cost used up to each point
	cost := used
	costs := make([]int, len(e.Points))
	c := 0
	for i, p := range e.Points {
		costs[i] = c
		c += altCost(p, p.Chosen)
	}
	_ = cost
	for i := len(prefix); i < len(e.Points); i++ {
		p := e.Points[i]
		remaining := 1 << 20
		if x.cfg.Bound >= 0 {
			remaining = x.cfg.Bound - costs[i]
		}
		if !x.cfg.NoPrune {
			if r, ok := x.visited[p.Key]; ok && r >= remaining {
				x.res.Pruned++
				return // this state and everything after it on this path has been expanded with at least this budget
			}
			x.visited[p.Key] = remaining
		}
		for alt := 0; alt < p.N; alt++ {
			if alt == p.Chosen {
				continue
			}
			if x.cfg.Bound >= 0 && costs[i]+altCost(p, alt) > x.cfg.Bound {
				continue
			}
			if top {
				subtree++
				if subtree%x.cfg.Shards != x.cfg.Shard {
					continue
				}
			}
			np := append(append([]int{}, sched[:i]...), alt)
			x.explore(np, costs[i]+altCost(p, alt))
			if x.capped() {
				return
			}
		}
	}
}

// Replay runs one schedule with descriptions (for replay artefacts and the determinism self-check).
func Replay(sched []int, maxPoints int, body func()) *Exec {
	if maxPoints == 0 {
		maxPoints = 4000
	}
	return Run(sched, maxPoints, true, body)
}

// ExploreOne executes exactly one schedule and applies the checks to it.
func ExploreOne(sched []int, body func(), check func(x *Exec)) *Result {
	x := &explorer{cfg: Config{Bound: -1, MaxPoints: 4000, Body: body, Check: check}, res: &Result{Exhaustive: false, Outcomes: map[string]int{}}, visited: map[uint64]int{}}
	curExplorer = x
	defer func() { curExplorer = nil }()
	e := Run(sched, x.cfg.MaxPoints, false, body)
	x.res.Executions, x.res.Transitions = 1, len(e.Points)
	x.curSched = sched
	switch {
	case e.Diverged != "":
		Fail("harness-divergence", e.Diverged)
	case e.Deadlock:
		Fail("deadlock", fmt.Sprintf("no goroutine can continue; blocked: %v", e.Blocked))
	case e.Panic != "":
		Fail("panic", e.Panic)
	}
	if check != nil {
		check(e)
	}
	return x.res
}
