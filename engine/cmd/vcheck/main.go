// vcheck <Cnn> --tier quick|thorough [--seed n] [--replay file]
package main

import (
	"fmt"
	"os"
	"strconv"
	"strings"
	"time"

	_ "verif/checks"
	"verif/mc"
	"verif/proj"
)

func main() {
	if len(os.Args) < 2 {
		fmt.Fprintln(os.Stderr, "usage: vcheck <Cnn>|list --tier quick|thorough [--seed n] [--replay file]")
		os.Exit(2)
	}
	id := os.Args[1]
	if id == "list" {
		fmt.Println(strings.Join(mc.IDs(), " "))
		return
	}
	if id == "oneshot-seq" { // vcheck oneshot-seq <root> <json [][]string>: the lines one after the other in one session of this fresh process
		proj.OneShotSeqMain(os.Args[2], os.Args[3])
		return
	}
	if id == "oneshot" { // vcheck oneshot <root> <batch-line arguments...>: one run in this fresh process, result as JSON
		proj.OneShotMain(os.Args[2], os.Args[3:])
		return
	}
	chk := mc.Get(id)
	if chk == nil {
		mc.HarnessError("unknown check %s (have %v)", id, mc.IDs())
	}
	tier := os.Getenv("VERIF_TIER")
	if tier == "" {
		tier = "quick"
	}
	seed := 0
	if s := os.Getenv("VERIF_SEED"); s != "" {
		seed, _ = strconv.Atoi(s)
	}
	var worker, replay, states string
	from := 0
	var deadline int64
	quiet := false
	a := os.Args[2:]
	for i := 0; i < len(a); i++ {
		next := func() string {
			i++
			if i >= len(a) {
				mc.HarnessError("missing value for %s", a[i-1])
			}
			return a[i]
		}
		switch a[i] {
		case "--tier":
			tier = next()
		case "--seed":
			seed, _ = strconv.Atoi(next())
		case "--worker":
			worker = next()
		case "--from":
			from, _ = strconv.Atoi(next())
		case "--deadline":
			deadline, _ = strconv.ParseInt(next(), 10, 64)
		case "--states":
			states = next()
		case "--upto":
			mc.WorkerUpto, _ = strconv.Atoi(next())
		case "--replay":
			replay = next()
		case "--quiet":
			quiet = true
		case "--prepare-only": // warm the build cache (setup)
			if chk.Prepare != nil {
				chk.Prepare(tier)
			}
			os.RemoveAll(mc.Scratch())
			return
		default:
			mc.HarnessError("unknown argument %s", a[i])
		}
	}
	if tier != "quick" && tier != "thorough" {
		mc.HarnessError("bad tier %s", tier)
	}
	switch {
	case replay != "":
		os.Exit(mc.ReplayMain(chk, tier, seed, replay, quiet))
	case worker != "":
		var k, n int
		fmt.Sscanf(worker, "%d/%d", &k, &n)
		mc.WorkerMain(chk, tier, seed, k, n, from, time.Unix(0, deadline), states)
	default:
		os.Exit(mc.ParentMain(chk, tier, seed))
	}
}
