// racepass <workdir> <concurrency> <line>... : runs the lines concurrently on one session with real goroutines
// (un-rewritten library). Built with -race; the race detector reports unsynchronised accesses between runs.
package main

import (
	"fmt"
	"os"
	"strconv"
	"strings"
	"sync"

	"github.com/zalf-rpm/Hermes2Go/hermes"
)

type nullW struct{}

func (nullW) Write(s string) (int, error)      { return len(s), nil }
func (nullW) WriteBytes(b []byte) (int, error) { return len(b), nil }
func (nullW) WriteRune(r rune) (int, error)    { return 1, nil }
func (nullW) WriteError(e error) (int, error)  { return 0, nil }
func (nullW) Close()                           {}

func main() {
	wd := os.Args[1]
	conc, _ := strconv.Atoi(os.Args[2])
	lines := os.Args[3:]
	for round := 0; round < 2; round++ {
		session := hermes.NewHermesSession()
		session.HermesOutWriter = func(string, bool) (hermes.OutWriter, error) { return nullW{}, nil }
		out := make(chan *hermes.RunReturn)
		logc := make(chan string)
		sem := make(chan struct{}, conc)
		var wg sync.WaitGroup
		failed := 0
		done := make(chan struct{})
		go func() {
			n := 0
			for n < len(lines) {
				select {
				case r := <-out:
					n++
					if !r.Success {
						failed++
					}
				case <-logc:
				}
			}
			close(done)
		}()
		for i, l := range lines {
			sem <- struct{}{}
			wg.Add(1)
			go func(i int, l string) {
				defer wg.Done()
				session.Run(wd, strings.Fields(l), fmt.Sprintf("[%d]", i), out, logc)
				<-sem
			}(i, l)
		}
		wg.Wait()
		<-done
		session.Close()
		if failed > 0 {
			fmt.Println("runs failed:", failed)
			os.Exit(3)
		}
	}
	fmt.Println("ok")
}
