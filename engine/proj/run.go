package proj

import (
	"encoding/json"
	"os/exec"
	"runtime/debug"
	"bytes"
	"fmt"
	"os"
	"path/filepath"
	"strings"
	"sync"

	"github.com/zalf-rpm/Hermes2Go/hermes"
)

// memWriter is an in-memory hermes.OutWriter.
type memWriter struct {
	buf     *bytes.Buffer
	persist string
}

func (m memWriter) Write(s string) (int, error)      { return m.buf.WriteString(s) }
func (m memWriter) WriteBytes(b []byte) (int, error) { return m.buf.Write(b) }
func (m memWriter) WriteRune(r rune) (int, error)    { return m.buf.WriteRune(r) }
func (m memWriter) WriteError(e error) (int, error)  { return m.buf.WriteString(e.Error()) }
func (m memWriter) Close() {
	// a configuration file that the run generates inside the project folder is an input of later runs: it goes to disk
	// as the library's own writer would put it there (result files stay in memory)
	if m.persist != "" {
		os.MkdirAll(filepath.Dir(m.persist), 0o755)
		os.WriteFile(m.persist, m.buf.Bytes(), 0o644)
	}
}

// RunResult is what one real run produced.
type RunResult struct {
	Success  bool
	Err      string
	Panic    string
	Files    map[string]string // result files by base name (in-memory writer)
	Log      []string
}

// Run executes the real hermes run in-process on the project written under root.
// Result files are kept in memory. A panic inside the run is recovered and reported.
func Run(root string, args []string, probe *hermes.VerifProbe) *RunResult {
	session := hermes.NewHermesSession()
	defer session.Close()
	return RunSession(session, root, args, "[0]", probe)
}

func RunSession(session *hermes.HermesSession, root string, args []string, logID string, probe *hermes.VerifProbe) *RunResult {
	res := &RunResult{Files: map[string]string{}}
	var mu sync.Mutex
	bufs := map[string]*bytes.Buffer{}
	session.HermesOutWriter = func(path string, app bool) (hermes.OutWriter, error) {
		mu.Lock()
		defer mu.Unlock()
		// configuration files that the run wants to generate go to disk (never the case for generated projects)
		b, ok := bufs[path]
		if !ok || !app {
			b = &bytes.Buffer{}
			bufs[path] = b
		}
		if filepath.Base(path) == "config.yml" {
			return memWriter{buf: b, persist: path}, nil
		}
		return memWriter{buf: b}, nil
	}
	if probe != nil {
		hermes.VerifSetProbe(session, probe)
		defer hermes.VerifSetProbe(session, nil)
	}
	out := make(chan *hermes.RunReturn, 4)
	logc := make(chan string, 1024)
	var wg sync.WaitGroup
	wg.Add(1)
	go func() {
		defer wg.Done()
		for l := range logc {
			if len(res.Log) < 200 {
				res.Log = append(res.Log, l)
			}
		}
	}()
	func() {
		defer func() {
			if r := recover(); r != nil {
				res.Panic = fmt.Sprint(r) + panicSite()
			}
		}()
		session.Run(root, args, logID, out, logc)
	}()
	close(logc)
	wg.Wait()
	select {
	case r := <-out:
		res.Success = r.Success
		if r.Err != nil {
			res.Err = r.Err.Error()
		}
	default:
		if res.Panic == "" {
			res.Panic = "run returned without a result"
		}
	}
	for p, b := range bufs {
		res.Files[filepath.Base(p)] = b.String()
	}
	return res
}

// File returns the result file whose name starts with the prefix (V, Y, C, M ...).
func (r *RunResult) File(prefix string) string {
	for k, v := range r.Files {
		if strings.HasPrefix(k, prefix) {
			return v
		}
	}
	return ""
}

// TempRoot creates a fresh scenario directory under the scratch root.
func TempRoot(scratch string) string {
	d, err := os.MkdirTemp(scratch, "p")
	if err != nil {
		panic(err)
	}
	return d
}

// RunDisk executes the run with the library's own file writer: result files are written to (and read back from) the
// result folder on disk. Used where the behaviour of the default writer itself matters (reused result folders).
func RunDisk(root string, args []string, resultDir string) *RunResult {
	res := &RunResult{Files: map[string]string{}}
	session := hermes.NewHermesSession()
	defer session.Close()
	out := make(chan *hermes.RunReturn, 4)
	logc := make(chan string, 4096)
	func() {
		defer func() {
			if r := recover(); r != nil {
				res.Panic = fmt.Sprint(r) + panicSite()
			}
		}()
		session.Run(root, args, "[0]", out, logc)
	}()
	select {
	case r := <-out:
		res.Success = r.Success
		if r.Err != nil {
			res.Err = r.Err.Error()
		}
	default:
		if res.Panic == "" {
			res.Panic = "run returned without a result"
		}
	}
	ents, _ := os.ReadDir(resultDir)
	for _, e := range ents {
		if !e.IsDir() {
			b, _ := os.ReadFile(filepath.Join(resultDir, e.Name()))
			res.Files[e.Name()] = string(b)
		}
	}
	return res
}

// panicSite names the innermost frames of the repository's code on the panicking goroutine's stack.
func panicSite() string {
	st := string(debug.Stack())
	var out []string
	for _, l := range strings.Split(st, "\n") {
		l = strings.TrimSpace(l)
		if strings.Contains(l, "/hermes/") && strings.Contains(l, ".go:") {
			if i := strings.Index(l, " +0x"); i > 0 {
				l = l[:i]
			}
			out = append(out, filepath.Base(l))
			if len(out) == 4 {
				break
			}
		}
	}
	if len(out) == 0 {
		return ""
	}
	return " (at " + strings.Join(out, " < ") + ")"
}

// OneShotMain runs one batch line in this process and prints the result as JSON (see RunFresh).
func OneShotMain(root string, args []string) {
	r := Run(root, args, nil)
	b, _ := json.Marshal(r)
	os.Stdout.WriteString("\n@@ONESHOT@@")
	os.Stdout.Write(b)
}

// RunFresh executes the run in a fresh process (the verification binary itself in one-shot mode): the reference for
// "what this line produces when nothing ran before it", also with respect to state kept at package level.
func RunFresh(root string, args []string) *RunResult {
	exe, err := os.Executable()
	if err != nil {
		return &RunResult{Panic: "RunFresh: " + err.Error(), Files: map[string]string{}}
	}
	cmd := exec.Command(exe, append([]string{"oneshot", root}, args...)...)
	cmd.Env = append(os.Environ(), "GOMAXPROCS=2")
	var errb bytes.Buffer
	cmd.Stderr = &errb
	out, err := cmd.Output()
	res := &RunResult{Files: map[string]string{}}
	if err != nil {
		res.Panic = fmt.Sprintf("fresh process died: %v: %.300s", err, errb.String())
		return res
	}
	if i := bytes.LastIndex(out, []byte("@@ONESHOT@@")); i >= 0 {
		out = out[i+len("@@ONESHOT@@"):] // (the run may print progress lines before the result)
	}
	if err := json.Unmarshal(out, res); err != nil {
		res.Panic = fmt.Sprintf("fresh process output: %v: %.200s", err, out)
	}
	return res
}

// OneShotSeqMain runs several batch lines one after the other in ONE session of this process and prints the results.
func OneShotSeqMain(root string, jsonLines string) {
	var lines [][]string
	if err := json.Unmarshal([]byte(jsonLines), &lines); err != nil {
		fmt.Fprintln(os.Stderr, "oneshot-seq:", err)
		os.Exit(2)
	}
	session := hermes.NewHermesSession()
	var out []*RunResult
	for i, a := range lines {
		out = append(out, RunSession(session, root, a, fmt.Sprintf("[%d]", i), nil))
	}
	session.Close()
	b, _ := json.Marshal(out)
	os.Stdout.WriteString("\n@@ONESHOT@@")
	os.Stdout.Write(b)
}

// RunSeqFresh runs the lines one after the other in one session of a FRESH process (nothing a worker process executed
// before can reach them, not even through package-level state).
func RunSeqFresh(root string, lines [][]string) ([]*RunResult, error) {
	exe, err := os.Executable()
	if err != nil {
		return nil, err
	}
	js, _ := json.Marshal(lines)
	cmd := exec.Command(exe, "oneshot-seq", root, string(js))
	cmd.Env = append(os.Environ(), "GOMAXPROCS=2")
	var errb bytes.Buffer
	cmd.Stderr = &errb
	out, err := cmd.Output()
	if err != nil {
		return nil, fmt.Errorf("fresh process died: %v: %.300s", err, errb.String())
	}
	if i := bytes.LastIndex(out, []byte("@@ONESHOT@@")); i >= 0 {
		out = out[i+len("@@ONESHOT@@"):]
	}
	var res []*RunResult
	if err := json.Unmarshal(out, &res); err != nil {
		return nil, fmt.Errorf("fresh process output: %v: %.200s", err, out)
	}
	return res, nil
}
