// Package proj writes complete synthetic Hermes2Go project trees from a compact description and
// runs the real simulation on them in-process.
package proj

import (
	"strconv"
	"fmt"
	"os"
	"path/filepath"
	"sort"
	"strings"
	"time"
)

// Horizon of a soil profile (CSV soil file row).
type Horizon struct {
	Tex         string  `json:"tex"`
	Lower       int     `json:"lower"` // lower boundary in dm
	BD          int     `json:"bd"`    // bulk density class 1..5
	BulkDensity float64 `json:"bulk,omitempty"`
	Stone       int     `json:"stone"` // %
	Corg        float64 `json:"corg"`
	CN          float64 `json:"cn"`
	FC          int     `json:"fc,omitempty"` // explicit values (Vol %), 0 = blank
	WP          int     `json:"wp,omitempty"`
	PS          int     `json:"ps,omitempty"`
	Sand        int     `json:"sand,omitempty"`
	Silt        int     `json:"silt,omitempty"`
	Clay        int     `json:"clay,omitempty"`
}

type Soil struct {
	Hor        []Horizon `json:"hor"`
	RootDepth  int       `json:"root"`
	GW         int       `json:"gw"`          // constant groundwater level (dm), 99 = none
	DrainDepth int       `json:"drain_depth"` // dm, 0 = none (the file default 20 with fraction 0 is equivalent)
	DrainFrac  float64   `json:"drain_frac"`
}

type CropEntry struct {
	Crop    string `json:"crop"`
	Sow     string `json:"sow"`     // yyyy-mm-dd ("" for the initial crop)
	Harvest string `json:"harvest"` // yyyy-mm-dd
	Rex     int    `json:"rex"`     // % residues exported
	Yld     int    `json:"yld"`
	AutOrg  int    `json:"autorg"`
	Variety string `json:"variety,omitempty"`
}

type Fert struct {
	Date   string  `json:"date"`
	Amount float64 `json:"amount"`
	Kind   string  `json:"kind"`
}
type Irr struct {
	Date   string  `json:"date"`
	MM     float64 `json:"mm"`
	NConc  float64 `json:"nconc"`
}
type Till struct {
	Date  string `json:"date"`
	Depth int    `json:"depth"` // cm
	Typ   int    `json:"typ"`
}

// Meas is the (single) measurement that overwrites N-min and water on its date.
type Meas struct {
	Date  string     `json:"date"`
	Mode  int        `json:"mode"` // 1 = fraction of available water, 3 = vol. fraction
	Nmin  [6]float64 `json:"nmin"`
	Water [6]float64 `json:"water"`
}

// Day is one weather record.
type Day struct {
	Tmin, Tavg, Tmax, Precip, Rad, Wind, RH float64
	Sun                                      float64 // sunshine hours, used if Project.SunColumn
	Verd                                     float64 // saturation deficit, used if Project.VerdColumn
	ET0                                      float64 // reference ET (mm), one-file-per-year layout only
}

type Project struct {
	ID       string            `json:"id"`
	Plot     string            `json:"plot"`
	Field    string            `json:"field"`
	SoilID   string            `json:"soil_id"`
	Soil     Soil              `json:"soil"`
	Rotation []CropEntry       `json:"rotation"`
	MgmtSplit bool             `json:"mgmt_split,omitempty"` // fertiliser, irrigation and tillage files: another field's event stands behind the first event of this field (two blocks)
	RotSplit int               `json:"rot_split,omitempty"` // >0: the rotation file lists another field between entry RotSplit-1 and RotSplit of this field
	Fert     []Fert            `json:"fert,omitempty"`
	Irr      []Irr             `json:"irr,omitempty"`
	Till     []Till            `json:"till,omitempty"`
	Meas     *Meas             `json:"meas,omitempty"`
	Config   map[string]string `json:"config,omitempty"` // overrides of the generated config.yml
	GWHi     int               `json:"gw_hi,omitempty"`  // polygon file GH
	GWLo     int               `json:"gw_lo,omitempty"`  // polygon file GL
	GWSeries []GWPoint         `json:"gw_series,omitempty"`
	// weather
	WeatherStart string `json:"weather_start"` // yyyy-mm-dd of the first record
	Weather      []Day  `json:"-"`
	SunColumn    bool   `json:"sun_column,omitempty"`
	VerdColumn   bool   `json:"verd_column,omitempty"`
	Layout       int    `json:"layout,omitempty"` // 0 = multi-year CSV (default), 1 = one file per year, 2 = multi-year day-of-year (cz)
	Filler       *Day   `json:"-"`                // record used to pad a year file back to 1 January (layout 1)
	Automan      string `json:"automan,omitempty"` // full text of automan.txt ("" = shipped example)
	DailyCols    string `json:"-"`                 // yaml text of dailyout_conf.yml ("" = minimal)
	YearlyCols   string `json:"-"`                 // yaml text of yearlyout_conf.yml ("" = minimal)
	CropCols     string `json:"-"`                 // yaml text of cropout_conf.yml ("" = minimal)
	Files        map[string]string `json:"-"`      // extra/override files relative to the project dir
	SoilCSVOrder int               `json:"soil_csv_order,omitempty"` // column order of the CSV soil file (see SoilCSV)
	ZeroCapacityCells bool         `json:"zero_capacity_cells,omitempty"` // capacity values that are not given are written as 0 instead of an empty cell
	FCode        string            `json:"fcode,omitempty"`          // weather station code = file name stem ("" = W)
	Heights      *[3]float64       `json:"heights,omitempty"`        // third header line of the weather files: station altitude (m), wind measurement height (m), base CO2 (0 = "-"); layouts 0 and 1 only
	CO2ByYear    map[int]float64   `json:"co2_by_year,omitempty"`    // CO2 concentration per calendar year: header slot of each year file (layout 1, needs Heights), CO2 column (layout 2)
	NoRadColumn  bool              `json:"no_rad_column,omitempty"`  // the weather input carries no global radiation (no column; missing-value code in the one-file-per-year layout)
}

type GWPoint struct {
	Date  string  `json:"date"`
	Level float64 `json:"level"`
}

func RepoDir() string {
	if d := os.Getenv("VERIF_REPO"); d != "" {
		return d
	}
	return "/repo"
}

// D parses yyyy-mm-dd.
func D(s string) time.Time {
	t, err := time.Parse("2006-01-02", s)
	if err != nil {
		panic(err)
	}
	return t
}

// DateStr renders a date in the Hermes date format name given (DateDElong, DateENlong, DateDEshort, DateENshort).
func DateStr(format string, t time.Time) string {
	switch format {
	case "DateENlong":
		return fmt.Sprintf("%02d%02d%04d", int(t.Month()), t.Day(), t.Year())
	case "DateDEshort":
		return fmt.Sprintf("%02d%02d%02d", t.Day(), int(t.Month()), t.Year()%100)
	case "DateENshort":
		return fmt.Sprintf("%02d%02d%02d", int(t.Month()), t.Day(), t.Year()%100)
	}
	return fmt.Sprintf("%02d%02d%04d", t.Day(), int(t.Month()), t.Year())
}

// ZEIT is the internal day number (days since 1900-12-31).
func ZEIT(t time.Time) int {
	return int(t.Sub(time.Date(1900, 12, 31, 0, 0, 0, 0, time.UTC)).Hours()/24 + 0.5)
}
func FromZEIT(z int) time.Time {
	return time.Date(1900, 12, 31, 0, 0, 0, 0, time.UTC).AddDate(0, 0, z)
}

var defaultConfig = map[string]string{
	"Dateformat": "DateDElong", "DivideCentury": "50", "GroundWaterFrom": "soilfile", "ResultFileFormat": "1", "ResultFileExt": "csv",
	"OutputIntervall": "0", "ManagementEvents": "0", "InitSelection": "1", "SoilFile": "soil", "SoilFileExtension": "csv",
	"CropFileFormat": "txt", "CropParameterFormat": "txt", "MeasurementFileFormat": "txt", "PolygonGridFileName": "poly",
	"WeatherFile": "%s.csv", "WeatherFileFormat": "1", "WeatherFolder": "w", "WeatherRootFolder": "./weather", "WeatherNoneValue": "-99.9",
	"WeatherNumHeader": "2", "CorrectionPrecipitation": "0", "AnnualAverageTemperature": "8.7", "ETpot": "3", "CO2method": "2",
	"CO2concentration": "360", "CO2StomataInfluence": "1", "NDeposition": "20", "StartYear": "", "EndDate": "", "AnnualOutputDate": "3009",
	"VirtualDateFertilizerPrediction": "--------", "Latitude": "52.52", "Altitude": "50", "CoastDistance": "300", "PTF": "0",
	"LeachingDepth": "15", "OrganicMatterMineralProportion": "0.13", "KcFactorBareSoil": "0.4", "PotMineralisation": "0", "GroundWaterPhase": "80",
	"Fertilization": "100", "AutoSowingHarvest": "0", "AutoFertilization": "0", "AutoIrrigation": "0", "AutoHarvest": "0",
}

var quoted = map[string]bool{"ResultFileExt": true, "SoilFile": true, "SoilFileExtension": true, "CropFileFormat": true, "CropParameterFormat": true,
	"MeasurementFileFormat": true, "PolygonGridFileName": true, "WeatherFile": true, "WeatherFolder": true, "WeatherRootFolder": true,
	"EndDate": true, "AnnualOutputDate": true, "VirtualDateFertilizerPrediction": true}

// Cfg returns the effective generated value of a config key.
func (p *Project) Cfg(k string) string {
	if v, ok := p.Config[k]; ok {
		return v
	}
	return defaultConfig[k]
}

func (p *Project) dateFmt() string { return p.Cfg("Dateformat") }
func (p *Project) ds(iso string) string {
	return DateStr(p.dateFmt(), D(iso))
}

const minimalDaily = `FillCharacter: ' '
SeperatorCharacter: ','
NaValue: n.a.
DataColumns:
- Format: '%s'
  VariableName: AKTUELL
`
const minimalYearly = `FillCharacter: ' '
SeperatorCharacter: ','
NaValue: n.a.
DataColumns:
- Format: '%s'
  VariableName: AKTUELL
- Format: '%.3f'
  VariableName: OUTSUM
- Format: '%.3f'
  VariableName: PerY
`
const minimalCrop = `FillCharacter: ' '
SeperatorCharacter: ','
NaValue: n.a.
DataColumns:
- Format: '%s'
  VariableName: Crop
- Format: '%d'
  VariableName: HarvestYear
- Format: '%1.f'
  VariableName: Yield
- Format: '%d'
  VariableName: SowDOY
- Format: '%d'
  VariableName: EmergDOY
- Format: '%d'
  VariableName: AnthDOY
- Format: '%d'
  VariableName: MatDOY
- Format: '%d'
  VariableName: HarvestDOY
`
const allManagement = `eventformats:
  tillage:
    eventname: tillage
    enabled: true
    additionalfields:
      Depth: '%dcm'
      Type: '%d'
  irrigation:
    eventname: irrigation
    enabled: true
    additionalfields:
      Amount: '%vmm'
      NO3: '%vmg/l'
  sowing:
    eventname: sowing
    enabled: true
    additionalfields:
      Crop: '%s'
  harvest:
    eventname: harvest
    enabled: true
    additionalfields:
      Crop: '%s'
  fertilization:
    eventname: fertilization
    enabled: true
    additionalfields:
      Fertilizer: '%s'
      Ndirect: '%v'
      NH4: '%v'
seperatorrune: 32
`

func must(err error) {
	if err != nil {
		panic(err)
	}
}

func fnum(v int) string {
	if v == 0 {
		return ""
	}
	return fmt.Sprintf("%02d", v)
}

func (p *Project) capCell(v int) string {
	if v == 0 && p.ZeroCapacityCells {
		return "0"
	}
	return fnum(v)
}

// SoilCSV renders the soil as CSV rows. SoilCSVOrder: 0 = the usual column order, 1 = columns reversed, 2 = rotated by 7
// (the reader finds its columns by name).
func (p *Project) SoilCSV() string {
	head := strings.Split("SID,C_org,Texture,LayerDepth,BulkDensityClass,Stone,C/N,C/S,RootDepth,NumberHorizon,FieldCapacity,WiltingPoint,PoreVolume,Sand,Silt,Clay,DrainageDepth,Drainage%,GroundWaterLevel", ",")
	hasBulk := false
	for _, h := range p.Soil.Hor {
		if h.BulkDensity > 0 {
			hasBulk = true
		}
	}
	if hasBulk {
		head = append(head, "BulkDensity")
	}
	rows := [][]string{head}
	for i, h := range p.Soil.Hor {
		root, nh, gw := "", "", ""
		dd, df := fmt.Sprintf("%02d", p.Soil.DrainDepth), fmt.Sprintf("%g", p.Soil.DrainFrac)
		if i == 0 {
			root, nh, gw = fmt.Sprintf("%02d", p.Soil.RootDepth), fmt.Sprintf("%02d", len(p.Soil.Hor)), fmt.Sprintf("%02d", p.Soil.GW)
		}
		r := []string{p.SoilID, fmt.Sprintf("%g", h.Corg), h.Tex, fmt.Sprintf("%02d", h.Lower), fmt.Sprintf("%d", h.BD), fmt.Sprintf("%02d", h.Stone), fmt.Sprintf("%g", h.CN), "00",
			root, nh, p.capCell(h.FC), p.capCell(h.WP), p.capCell(h.PS), fnum(h.Sand), fnum(h.Silt), fnum(h.Clay), dd, df, gw}
		if hasBulk {
			if h.BulkDensity > 0 {
				r = append(r, fmt.Sprintf("%g", h.BulkDensity))
			} else {
				r = append(r, "")
			}
		}
		rows = append(rows, r)
	}
	n := len(head)
	perm := make([]int, n)
	for i := range perm {
		switch p.SoilCSVOrder {
		case 1:
			perm[i] = n - 1 - i
		case 2:
			perm[i] = (i + 7) % n
		default:
			perm[i] = i
		}
	}
	var b strings.Builder
	for _, r := range rows {
		o := make([]string, n)
		for i, src := range perm {
			o[i] = r[src]
		}
		b.WriteString(strings.Join(o, ",") + "\n")
	}
	return b.String()
}

// WeatherCSV renders the multi-year CSV layout.
func (p *Project) WeatherCSV() string {
	var b strings.Builder
	hdr, units := "iso-date,tmin,tavg,tmax,precip,globrad,wind,relhumid", "-,C,C,C,mm,MJ,m/s,%"
	if p.NoRadColumn {
		hdr, units = "iso-date,tmin,tavg,tmax,precip,wind,relhumid", "-,C,C,C,mm,m/s,%"
	}
	b.WriteString(hdr)
	if p.SunColumn {
		b.WriteString(",sunhours")
	}
	if p.VerdColumn {
		b.WriteString(",verd")
	}
	b.WriteString("\n" + units + "\n")
	b.WriteString(p.heightsLine(","))
	t := D(p.WeatherStart)
	for _, d := range p.Weather {
		if p.NoRadColumn {
			fmt.Fprintf(&b, "%s,%g,%g,%g,%g,%g,%g", t.Format("2006-01-02"), d.Tmin, d.Tavg, d.Tmax, d.Precip, d.Wind, d.RH)
		} else {
			fmt.Fprintf(&b, "%s,%g,%g,%g,%g,%g,%g,%g", t.Format("2006-01-02"), d.Tmin, d.Tavg, d.Tmax, d.Precip, d.Rad, d.Wind, d.RH)
		}
		if p.SunColumn {
			fmt.Fprintf(&b, ",%g", d.Sun)
		}
		if p.VerdColumn {
			fmt.Fprintf(&b, ",%g", d.Verd)
		}
		b.WriteString("\n")
		t = t.AddDate(0, 0, 1)
	}
	return b.String()
}

func (p *Project) ConfigYML() string {
	keys := make([]string, 0, len(defaultConfig))
	for k := range defaultConfig {
		keys = append(keys, k)
	}
	sort.Strings(keys)
	var b strings.Builder
	for _, k := range keys {
		v := p.Cfg(k)
		if quoted[k] {
			fmt.Fprintf(&b, "%s: '%s'\n", k, v)
		} else {
			fmt.Fprintf(&b, "%s: %s\n", k, v)
		}
	}
	return b.String()
}

func (p *Project) RotationTxt() string {
	var b strings.Builder
	b.WriteString("Field_ID    crp  sowing harvst Rex yld autorg variety comment\n")
	for i, r := range p.Rotation {
		if p.RotSplit > 0 && i == p.RotSplit {
			// the field's entries come in two blocks with another field's rotation in between
			fmt.Fprintf(&b, "%-9s %-3s %s %s %03d %03d %d %s\n", "OTHERFLD", "WW", strings.Repeat("-", len(p.ds("2000-01-01"))), p.ds(p.Rotation[0].Harvest), 50, 50, 0, "")
			fmt.Fprintf(&b, "%-9s %-3s %s %s %03d %03d %d %s\n", "OTHERFLD", "SM", p.ds(p.Rotation[len(p.Rotation)-1].Sow), p.ds(p.Rotation[len(p.Rotation)-1].Harvest), 0, 0, 0, "")
		}
		sow := strings.Repeat("-", len(p.ds("2000-01-01")))
		if i > 0 || r.Sow != "" {
			if r.Sow != "" {
				sow = p.ds(r.Sow)
			}
		}
		fmt.Fprintf(&b, "%-9s %-3s %s %s %03d %03d %d %s\n", p.Field, r.Crop, sow, p.ds(r.Harvest), r.Rex, r.Yld, r.AutOrg, r.Variety)
	}
	return b.String()
}

// Write creates root/project/<id>/..., root/parameter (symlink to the shipped tables), root/weather/w/<fcode>.csv.
func (p *Project) Write(root string) {
	pd := filepath.Join(root, "project", p.ID)
	must(os.MkdirAll(pd, 0o755))
	must(os.MkdirAll(filepath.Join(root, "weather", "w"), 0o755))
	par := filepath.Join(root, "parameter")
	if _, err := os.Lstat(par); err != nil {
		must(os.Symlink(filepath.Join(RepoDir(), "examples", "parameter"), par))
	}
	w := func(name, content string) {
		if ov, ok := p.Files[name]; ok {
			content = ov
		}
		must(os.WriteFile(filepath.Join(pd, name), []byte(content), 0o644))
	}
	if p.Config == nil {
		p.Config = map[string]string{}
	}
	if p.Cfg("StartYear") == "" {
		p.Config["StartYear"] = fmt.Sprint(D(p.Rotation[0].Harvest).Year())
	}
	switch p.Layout {
	case 1:
		p.Config["WeatherFile"], p.Config["WeatherFileFormat"], p.Config["WeatherNumHeader"] = "%s.", "0", "2"
	case 2:
		p.Config["WeatherFile"], p.Config["WeatherFileFormat"], p.Config["WeatherNumHeader"] = "%s.csv", "2", "1"
	}
	if p.Heights != nil && p.Layout != 2 {
		p.Config["WeatherNumHeader"] = "3"
	}
	w("config.yml", p.ConfigYML())
	gh, gl := 99, 99
	if p.GWHi != 0 || p.GWLo != 0 {
		gh, gl = p.GWHi, p.GWLo
	}
	irrFlag := 0
	if len(p.Irr) > 0 {
		irrFlag = 1
	}
	w("poly_"+p.ID+".txt", fmt.Sprintf("Polyg SID  Field_ID  GH GL Ir comment\n%s %s %s    %02d %02d %d x\nend\n", p.Plot, p.SoilID, p.Field, gh, gl, irrFlag))
	w("soil_"+p.ID+".csv", p.SoilCSV())
	w("crop_"+p.ID+".txt", p.RotationTxt())
	var b strings.Builder
	b.WriteString("Field_ID  N   Frt date\n")
	for i, f := range p.Fert {
		fmt.Fprintf(&b, "%-9s %g %s  %s\n", p.Field, f.Amount, f.Kind, p.ds(f.Date))
		if p.MgmtSplit && i == 0 && len(p.Fert) > 1 {
			fmt.Fprintf(&b, "%-9s %g %s  %s\n", "OTHERFLD", 55.0, "KAS", p.ds(f.Date))
		}
	}
	b.WriteString("end\n")
	w("fert_"+p.ID+".txt", b.String())
	b.Reset()
	b.WriteString("Field_ID  Ir N03 date\n          mm mg/l \n")
	for i, f := range p.Irr {
		fmt.Fprintf(&b, "%-9s %g  %g %s\n", p.Field, f.MM, f.NConc, p.ds(f.Date))
		if p.MgmtSplit && i == 0 && len(p.Irr) > 1 {
			fmt.Fprintf(&b, "%-9s %g  %g %s\n", "OTHERFLD", 33.0, 5.0, p.ds(f.Date))
		}
	}
	b.WriteString("end\n")
	w("irr_"+p.ID+".txt", b.String())
	b.Reset()
	b.WriteString("Field_ID  Ti Typ date\n          cm\n")
	for i, f := range p.Till {
		fmt.Fprintf(&b, "%-9s %d %d   %s\n", p.Field, f.Depth, f.Typ, p.ds(f.Date))
		if p.MgmtSplit && i == 0 && len(p.Till) > 1 {
			fmt.Fprintf(&b, "%-9s %d %d   %s\n", "OTHERFLD", 25, 1, p.ds(f.Date))
		}
	}
	b.WriteString("end\n")
	w("til_"+p.ID+".txt", b.String())
	b.Reset()
	b.WriteString("Plot_ID   Date     Nm03 Nm36 Nm69 M W0_3  W3_6  W6_9  NM9-12 NM12-15 NM15-20  W9-12 W12-15 W15-20\n")
	if p.Meas != nil {
		m := p.Meas
		fmt.Fprintf(&b, "ALLE      %s %g %g %g %d %g %g %g %g %g %g %g %g %g\n", p.ds(m.Date), m.Nmin[0], m.Nmin[1], m.Nmin[2], m.Mode,
			m.Water[0], m.Water[1], m.Water[2], m.Nmin[3], m.Nmin[4], m.Nmin[5], m.Water[3], m.Water[4], m.Water[5])
	} else {
		nd := "------"
		fmt.Fprintf(&b, "ALLE      %s 0 0 0 1 0.5 0.5 0.5 0 0 0 0.5 0.5 0.5\n", nd)
	}
	b.WriteString("end\n")
	w("endit_"+p.ID+".txt", b.String())
	if p.Automan != "" {
		w("automan.txt", p.Automan)
	} else {
		src, err := os.ReadFile(filepath.Join(RepoDir(), "examples", "project", "myP", "automan.txt"))
		must(err)
		w("automan.txt", string(src))
	}
	if len(p.GWSeries) > 0 {
		b.Reset()
		b.WriteString("SID,Date,Level\n")
		for _, g := range p.GWSeries {
			fmt.Fprintf(&b, "%s,%s,%g\n", p.SoilID, p.ds(g.Date), g.Level)
		}
		w("gw_"+p.ID+".csv", b.String())
	}
	daily := p.DailyCols
	if daily == "" {
		daily = minimalDaily
	}
	w("dailyout_conf.yml", daily)
	yearly, crop := p.YearlyCols, p.CropCols
	if yearly == "" {
		yearly = minimalYearly
	}
	if crop == "" {
		crop = minimalCrop
	}
	w("yearlyout_conf.yml", yearly)
	w("cropout_conf.yml", crop)
	w("managementout_conf.yml", allManagement)
	for name, content := range p.Files {
		must(os.MkdirAll(filepath.Dir(filepath.Join(pd, name)), 0o755))
		must(os.WriteFile(filepath.Join(pd, name), []byte(content), 0o644))
	}
	p.WriteWeather(root)
}

// WriteWeather (re)writes the weather input in the project's layout.
func (p *Project) WriteWeather(root string) {
	if p.Weather == nil {
		return
	}
	dir := filepath.Join(root, "weather", "w")
	code := p.fcode()
	switch p.Layout {
	case 1:
		for name, txt := range p.WeatherYearFiles() {
			must(os.WriteFile(filepath.Join(dir, code+strings.TrimPrefix(name, "W")), []byte(txt), 0o644))
		}
	case 2:
		must(os.WriteFile(filepath.Join(dir, code+".csv"), []byte(p.WeatherCZ()), 0o644))
	default:
		must(os.WriteFile(filepath.Join(dir, code+".csv"), []byte(p.WeatherCSV()), 0o644))
	}
}

// heightsLine: the optional third header line (altitude, wind height, base CO2).
func (p *Project) heightsLine(sep string) string {
	if p.Heights == nil {
		return ""
	}
	co2 := "-"
	if p.Heights[2] != 0 {
		co2 = fmt.Sprintf("%g", p.Heights[2])
	}
	return fmt.Sprintf("%g%s%g%s%s\n", p.Heights[0], sep, p.Heights[1], sep, co2)
}

func (p *Project) fcode() string {
	if p.FCode != "" {
		return p.FCode
	}
	return "W"
}

// YearExt is the file extension of a one-file-per-year weather file.
func YearExt(year int) string {
	j := year - 1900
	if j >= 100 {
		return fmt.Sprintf("0%02d", j-100)
	}
	return fmt.Sprintf("9%02d", j)
}

// WeatherYearFiles renders layout 1: one file per calendar year, days 1..n, padded with Filler before the first record.
func (p *Project) WeatherYearFiles() map[string]string {
	out := map[string]string{}
	t := D(p.WeatherStart)
	bufs := map[int]*strings.Builder{}
	row := func(y int, d Day, doy int) {
		b, ok := bufs[y]
		if !ok {
			b = &strings.Builder{}
			b.WriteString("tavg;tmin;tmax;ET0;relhumid;vapp14;wind;sundu;globrad;precip;jday\nC;C;C;mm;%;mmHg;m/s;h;MJ;mm;\n")
			if v, ok := p.CO2ByYear[y]; ok && p.Heights != nil {
				h := *p.Heights
				h[2] = v
				q := *p
				q.Heights = &h
				b.WriteString(q.heightsLine(";"))
			} else {
				b.WriteString(p.heightsLine(";"))
			}
			bufs[y] = b
		}
		none := -99.9
		if v, err := strconv.ParseFloat(p.Cfg("WeatherNoneValue"), 64); err == nil {
			none = v
		}
		sun, verd, et0 := none, none, none
		if p.NoRadColumn {
			d.Rad = none
		}
		if p.SunColumn {
			sun = d.Sun
		}
		if p.VerdColumn {
			verd = d.Verd
		}
		if d.ET0 != 0 {
			et0 = d.ET0
		}
		fmt.Fprintf(b, "%g;%g;%g;%g;%g;%g;%g;%g;%g;%g;%d\n", d.Tavg, d.Tmin, d.Tmax, et0, d.RH, verd, d.Wind, sun, d.Rad, d.Precip, doy)
	}
	if t.YearDay() > 1 {
		f := Day{Tmin: 6, Tavg: 10, Tmax: 14, Precip: 1, Rad: 10, Wind: 2.5, RH: 75, Sun: 5, Verd: 2, ET0: 1}
		if p.Filler != nil {
			f = *p.Filler
		}
		for d := 1; d < t.YearDay(); d++ {
			row(t.Year(), f, d)
		}
	}
	for _, d := range p.Weather {
		row(t.Year(), d, t.YearDay())
		t = t.AddDate(0, 0, 1)
	}
	for y, b := range bufs {
		out["W."+YearExt(y)] = b.String()
	}
	return out
}

// WeatherCZ renders layout 2 (multi-year, yyyyddd dates, tavg derived).
func (p *Project) WeatherCZ() string {
	var b strings.Builder
	if p.NoRadColumn {
		b.WriteString("@YYYYJJJ TMIN TMAX PREC WIND RH")
	} else {
		b.WriteString("@YYYYJJJ TMIN TMAX RAD PREC WIND RH")
	}
	if p.SunColumn {
		b.WriteString(" SUNH")
	}
	if p.VerdColumn {
		b.WriteString(" VERD")
	}
	if p.CO2ByYear != nil {
		b.WriteString(" CO2")
	}
	b.WriteString("\n")
	t := D(p.WeatherStart)
	for _, d := range p.Weather {
		if p.NoRadColumn {
			fmt.Fprintf(&b, "%04d%03d %g %g %g %g %g", t.Year(), t.YearDay(), d.Tmin, d.Tmax, d.Precip, d.Wind, d.RH)
		} else {
			fmt.Fprintf(&b, "%04d%03d %g %g %g %g %g %g", t.Year(), t.YearDay(), d.Tmin, d.Tmax, d.Rad, d.Precip, d.Wind, d.RH)
		}
		if p.SunColumn {
			fmt.Fprintf(&b, " %g", d.Sun)
		}
		if p.VerdColumn {
			fmt.Fprintf(&b, " %g", d.Verd)
		}
		if p.CO2ByYear != nil {
			fmt.Fprintf(&b, " %g", p.CO2ByYear[t.Year()])
		}
		b.WriteString("\n")
		t = t.AddDate(0, 0, 1)
	}
	return b.String()
}

// Args returns the batch-line arguments of the project.
func (p *Project) Args(root string, extra ...string) []string {
	a := []string{"project=" + p.ID, "plotNr=" + p.Plot, "fcode=" + p.fcode(), "resultfolder=" + filepath.Join(root, "out", p.ID+"_"+p.Plot)}
	return append(a, extra...)
}
