package checks

import (
	"path/filepath"
	"encoding/json"
	"fmt"
	"os"
	"strconv"
	"strings"
	"time"

	"github.com/zalf-rpm/Hermes2Go/hermes"
	"verif/mc"
	"verif/proj"
)

// C16 — the rotation is followed (order, crop code, harvest year; fixed dates honoured) and automatic management
// stays inside its configured windows: sowing in [Sow1, Sow2] and after the previous harvest, harvest not later than
// the latest harvest date, automatic irrigation only between the configured stages and never above the daily maximum,
// automatic N amounts never negative.

type c16Spec struct {
	Split  int      `json:"split,omitempty"` // the rotation file lists the field in two blocks (another field in between), the second block begins with entry Split
	Rot    int      `json:"rot"`
	Table  int      `json:"table"`
	Switch int      `json:"switch"` // bit 0 AutoSowingHarvest, 1 AutoHarvest, 2 AutoIrrigation, 3 AutoFertilization
	Alpha  []string `json:"alpha"`
	D      int      `json:"d"`
	Word   []string `json:"word,omitempty"`
	Ext    int      `json:"ext,omitempty"` // the run names another configuration of the project (fileExtension=sc2): 1 rotation as text, 2 as CSV; the default files hold another rotation
}

type c16Crop struct {
	code           string
	sow, harvest   string // rotation dates
	sow1, sow2, h2 string // ddmm windows of the base table
	autorg         int    // 1: organic fertiliser of the table row is applied automatically for this entry
}

var c16Rots = [][]c16Crop{
	{{"SM", "2002-04-20", "2002-09-25", "1004", "1505", "3009", 0}, {"WW", "2002-10-15", "2003-07-30", "0510", "0511", "1508", 0}, {"SM", "2004-04-20", "2004-09-25", "1004", "1505", "3009", 0}},
	{{"WW", "2001-10-05", "2002-07-25", "2009", "2510", "1508", 0}, {"SW", "2003-03-25", "2003-08-10", "0103", "1504", "3108", 0}, {"ZR", "2004-04-10", "2004-10-10", "2503", "3004", "3110", 0}},
	{{"SOY", "2002-05-01", "2002-09-20", "2004", "2005", "2509", 0}, {"WG", "2002-10-05", "2003-07-10", "0110", "2510", "3107", 0}},
	{{"SW", "2002-03-25", "2002-08-10", "0103", "1504", "3108", 0}, {"WR", "2002-10-10", "2003-07-25", "0110", "1011", "1508", 0}},
	// a permanent crop followed by a permanent crop after a short fallow in summer
	{{"AA", "2002-05-10", "2002-07-05", "0105", "2005", "1007", 0}, {"GR", "2002-07-20", "2002-10-10", "1507", "2507", "1510", 0}},
	// automatic organic fertiliser (timed by the harvest in the table) on entries in the middle and at the end of the rotation
	{{"SM", "2002-04-20", "2002-09-25", "1004", "1505", "3009", 0}, {"WW", "2002-10-15", "2003-07-30", "0510", "0511", "1508", 1}, {"SM", "2004-04-20", "2004-09-25", "1004", "1505", "3009", 0}},
	{{"WW", "2001-10-05", "2002-07-25", "2009", "2510", "1508", 0}, {"SW", "2003-03-25", "2003-08-10", "0103", "1504", "3108", 1}, {"ZR", "2004-04-10", "2004-10-10", "2503", "3004", "3110", 1}},
	// harvests in the last days of December, of a common year and of a leap year
	{{"ZR", "2002-04-10", "2002-12-22", "2503", "3004", "3012", 0}, {"SW", "2003-03-25", "2003-08-10", "0103", "1504", "3108", 0}, {"ZR", "2004-04-10", "2004-12-29", "2503", "3004", "3012", 0}},
	// a first crop whose table row has no windows (0000: rotation dates) before crops with windows whose rotation dates lie
	// outside their windows (automatic sowing has to move them into the window)
	{{"SW", "2002-03-25", "2002-08-10", "0000", "0000", "0000", 0}, {"WW", "2002-09-15", "2003-07-30", "0510", "0511", "1508", 0}, {"SM", "2004-05-25", "2004-09-25", "1004", "1505", "3009", 0}},
}

// c16Row renders one automan.txt row at the fixed columns the reader uses.
func c16Row(cr c16Crop, table int) string {
	b := []byte(strings.Repeat(" ", 184))
	put := func(at int, s string) { copy(b[at:], s) }
	sow1, sow2, h2 := cr.sow1, cr.sow2, cr.h2
	tsmin, flag := "  5.0", " "
	smomin, smomax, hmomin, hmomax := "  0.0", "100.0", "  0.0", "100.0"
	rainav, rainact := " 9.0", " 2.0"
	irr1, irr2, irrlow, irrdep, irrmax := "2", "5", " 60", " 60", " 30"
	nd1, nd2, nd3, st1, st2, st3 := "120", " 60", "  0", "S0 ", "S3 ", "0  "
	taccu := "100"
	day := func(ddmm string, d int) string {
		t, _ := time.Parse("02012006", ddmm+"2002")
		return t.AddDate(0, 0, d).Format("0201")
	}
	switch table {
	case 1: // narrow sowing window, moisture conditions that are never met (sowing forced on the last day), harvest only when dry
		sow1 = day(sow2, -3)
		smomin, smomax = " 99.0", " 99.5"
		hmomin, hmomax = "  0.0", " 40.0"
		rainav, rainact = " 0.5", " 0.1"
	case 2: // no windows: the rotation dates are used
		sow1, sow2, h2 = "0000", "0000", "0000"
	case 3: // very short season: latest harvest a few days after the end of the sowing window, cold threshold high
		h2 = day(sow2, 5)
		tsmin = " 25.0"
	case 4: // irrigation in one stage only, small daily maximum, irrigate when below 95 % of capacity
		irr1, irr2, irrlow, irrmax = "3", "3", " 95", "  8"
		nd1, nd2, nd3, st1, st2, st3 = "250", "250", "250", "S0 ", "S2 ", "S4 "
	case 10: // a daily maximum of 0 mm: irrigation is configured in every stage, but nothing may be applied
		irr1, irr2, irrlow, irrmax = "1", "6", " 95", "  0"
	case 9: // (used by the long worlds) harvest at any topsoil moisture: the model may decide to harvest on a rainy day
		hmomax = "999.0"
	case 8: // (used by C13) irrigation in every stage, small daily maximum, irrigate when below 90 % of capacity
		irr1, irr2, irrlow, irrdep, irrmax = "1", "6", " 90", " 30", "  6"
	case 6: // temperature sum for sowing that is never reached: sowing is forced on the last day of the window
		taccu = "999"
	case 5: // wide irrigation window, large maximum, sowing below a maximum temperature (x flag), N by day of year
		irr1, irr2, irrlow, irrmax = "1", "6", " 80", " 60"
		tsmin, flag = " 18.0", "x"
		nd1, nd2, nd3, st1, st2, st3 = "  0", " 40", " 90", " 90", "120", "150"
	}
	put(0, fmt.Sprintf("%-3s", cr.code))
	put(4, sow1)
	put(9, sow2)
	put(14, h2)
	put(19, tsmin)
	put(24, flag)
	put(25, smomin)
	put(32, smomax)
	put(39, hmomin)
	put(46, hmomax)
	put(53, rainav)
	put(60, rainact)
	put(68, taccu)
	put(74, " 0")
	put(80, irr1)
	put(87, irr2)
	put(94, nd1)
	put(100, nd2)
	put(106, nd3)
	put(112, st1)
	put(119, st2)
	put(127, st3)
	put(135, " 5")
	put(143, "RM ")
	put(149, "200")
	if table == 7 { // organic fertiliser timed by the sowing date (5 days after it) instead of the harvest
		put(156, "S05")
	} else {
		put(156, "H1 ")
	}
	put(163, irrlow)
	put(170, irrdep)
	put(177, irrmax)
	return string(b)
}

func c16Specs(tier string, seed int) []c16Spec {
	var out []c16Spec
	alpha, d := []string{"season", "cold", "hot-drought"}, 3
	if tier == "thorough" {
		alpha, d = []string{"season", "cold", "hot-drought", "waterlogged"}, 4
	}
	for r := range c16Rots {
		for t := 0; t <= 6; t++ {
			if c16Rots[r][0].sow1 == "0000" && t >= 1 && t <= 3 {
				continue // (these table variants derive or remove the windows of every row)
			}
			for sw := 0; sw < 16; sw++ {
				out = append(out, c16Spec{Rot: r, Table: t, Switch: sw, Alpha: alpha, D: d})
			}
		}
	}
	// table 10 (daily irrigation maximum 0) with automatic irrigation on
	for r := 0; r < 3; r++ {
		for _, sw := range []int{4, 5, 7, 12, 15} {
			out = append(out, c16Spec{Rot: r, Table: 10, Switch: sw, Alpha: alpha, D: d - 1})
		}
	}
	// table 7 (organic fertiliser timed by the sowing date) for the rotations with automatic organic fertiliser
	for _, r := range []int{5, 6} {
		for sw := 0; sw < 16; sw++ {
			out = append(out, c16Spec{Rot: r, Table: 7, Switch: sw, Alpha: alpha, D: d - 1})
		}
	}
	// several configurations in one project folder: the run names its configuration with the fileExtension option
	for r := 0; r < 4; r++ {
		for _, t := range []int{0, 2} {
			for _, sw := range []int{0, 1, 3, 15} {
				for ext := 1; ext <= 2; ext++ {
					out = append(out, c16Spec{Rot: r, Table: t, Switch: sw, Alpha: alpha[:2], D: 1, Ext: ext})
				}
			}
		}
	}
	// rotation files in which the field's entries are not contiguous (exported by period, or field by field in turns)
	for r := 0; r < len(c16Rots); r++ {
		for _, t := range []int{0, 2} {
			for _, sw := range []int{0, 3, 15} {
				for split := 2; split <= len(c16Rots[r]); split++ {
					out = append(out, c16Spec{Rot: r, Table: t, Switch: sw, Alpha: alpha[:2], D: 1, Split: split})
				}
			}
		}
	}
	return out
}

func init() {
	mc.Register(&mc.Check{
		ID:        "C16",
		Technique: "explicit-state bounded exploration of whole rotations on the real run loop: every word of 30-day weather blocks over the first sowing window and season x 3 rotations x 6 automatic-management tables x all 16 combinations of the four automation switches; sowing/harvest/irrigation/fertilisation events and the crop records compared with the rotation and the table's windows",
		Rule: "scenario = (rotation of 2-3 shipped crops whose sowing windows open after the preceding crop's latest harvest, table variant, switch combination) with all block words; crop records: one per rotation entry, in order, with the entry's crop code and harvest year; switches off: sowing and harvest events on the rotation dates; automatic sowing: inside [Sow1, Sow2] of the entry's year and after the previous harvest; automatic harvest: not after the latest harvest date; automatic irrigation: stage within [Irrdv1, Irrdv2] and amount <= irrmax on every irrigated day; automatic N: every amount >= 0; " +
			"state = (day, stage, event); non-trivial = run in which at least one automatic decision was taken",
		Assumptions: []string{"tables: base, narrow window with unsatisfiable moisture conditions, no windows (rotation dates), latest harvest 5 days after the sowing window, one-stage irrigation with small maximum, wide irrigation with maximum-temperature sowing, temperature sum for sowing never reached", "the sowing window and latest harvest date belong to the year of the rotation entry's sowing and harvest date"},
		Bound: func(t string) string {
			if t == "quick" {
				return "9 rotations (incl. a crop without windows before crops whose rotation dates lie outside their windows, permanent crop after permanent crop, automatic organic fertiliser on middle and last entries, harvests in the last days of December of a common and a leap year) x 7 tables x 16 switch combinations x 3^3 block words"
			}
			return "9 rotations x 7 tables x 16 switch combinations x 4^4 block words"
		},
		Budget: func(t string) time.Duration {
			if t == "quick" {
				return 170 * time.Second
			}
			return 90 * time.Minute
		},
		Scenarios: func(tier string, seed int) []json.RawMessage { return mc.Specs(c16Specs(tier, seed)) },
		Run:       c16Run,
	})
}

func c16Run(raw json.RawMessage, c *mc.Ctx) {
	sp := mc.Decode[c16Spec](raw)
	root := scratchRoot()
	defer os.RemoveAll(root)
	rot := c16Rots[sp.Rot]
	autoSow, autoHar, autoIrr, autoFert := sp.Switch&1 != 0, sp.Switch&2 != 0, sp.Switch&4 != 0, sp.Switch&8 != 0
	last := rot[len(rot)-1]
	ndays := int(proj.D(last.harvest).Sub(proj.D("2001-08-15")).Hours()/24) + 60
	// the period must reach beyond every crop's latest harvest date (table 3 derives it from the sowing window)
	for _, cr := range rot {
		h2 := cr.h2
		if sp.Table == 3 {
			t, _ := time.Parse("02012006", cr.sow2+"2002")
			h2 = t.AddDate(0, 0, 5).Format("0201")
		}
		if t, err := time.Parse("02012006", h2+cr.harvest[:4]); err == nil {
			if n := int(t.Sub(proj.D("2001-08-15")).Hours()/24) + 20; n > ndays {
				ndays = n
			}
		}
	}
	b := e1Base{Soil: "loam12", GW: 99, InitW: 0.7, InitN: 40, ET: 3, Start: "2001-08-15"}
	p := e1Project(b, ndays)
	p.Rotation = p.Rotation[:1]
	var table strings.Builder
	table.WriteString("crp Sow1 Sow2 har2 TSmin Smomin Smomax Hmomin Hmomax Rainav Rainact TACCU Tbase Irrdv1 Irrdv2 Ndem1 Ndem2 Ndem3 stage1 stage 2 stage 3 Twindow orgF  amount appdat Irrlow irrdep irrmax\n")
	seen := map[string]bool{}
	for _, cr := range rot {
		p.Rotation = append(p.Rotation, proj.CropEntry{Crop: cr.code, Sow: cr.sow, Harvest: cr.harvest, Rex: 50, AutOrg: cr.autorg})
		if !seen[cr.code] {
			// a decoy row whose code starts with this crop's code comes first (e.g. WRA before WR): rows are matched by the whole code
			if len(cr.code) == 2 {
				table.WriteString(c16Row(c16Crop{cr.code + "A", "", "", "0501", "0601", "0107", 0}, 0) + "\n")
			}
			table.WriteString(c16Row(cr, sp.Table) + "\n")
			seen[cr.code] = true
		}
	}
	table.WriteString(c16Row(c16Crop{"WW", "", "", "2009", "2510", "1508", 0}, 0) + "\n")
	p.Rotation = append(p.Rotation, proj.CropEntry{Crop: "WW", Sow: "2008-10-01", Harvest: "2009-07-30"})
	p.Automan = table.String()
	p.RotSplit = sp.Split // (entry 0 is the initial crop: the second block begins with the crop number Split of the rotation)
	bs := func(v bool) string { return map[bool]string{true: "1", false: "0"}[v] }
	p.Config["AutoSowingHarvest"], p.Config["AutoHarvest"], p.Config["AutoIrrigation"], p.Config["AutoFertilization"] = bs(autoSow), bs(autoHar), bs(autoIrr), bs(autoFert)
	p.Config["ManagementEvents"] = "1"
	p.Fert = []proj.Fert{{Date: isoAdd(rot[0].sow, 15), Amount: 60, Kind: "KAS"}}
	if autoIrr {
		p.Irr = []proj.Irr{} // the polygon file's irrigation flag stays off; automatic irrigation does not need it
	}
	wstart := proj.D(p.WeatherStart)
	baseW := seasonWeather(wstart, ndays+40)
	off := func(iso string) int { return int(proj.D(iso).Sub(wstart).Hours()/24 + 0.5) }
	// blocks: from 10 days before the first entry's sowing window, consecutive
	w1, _ := time.Parse("02012006", rot[0].sow1+rot[0].sow[:4])
	if rot[0].sow1 == "0000" {
		w1 = proj.D(rot[0].sow)
	}
	first := off(w1.Format("2006-01-02")) - 10
	ws := [][]string{sp.Word}
	if sp.Word == nil {
		ws = words(sp.Alpha, sp.D)
	}
	p.Weather = baseW
	p.Write(root)
	extraArgs := []string{}
	if sp.Ext > 0 {
		pd := filepath.Join(root, "project", p.ID)
		cpf := func(from, to string) {
			b, err := os.ReadFile(filepath.Join(pd, from))
			if err != nil {
				mc.HarnessError("C16 ext: %v", err)
			}
			os.WriteFile(filepath.Join(pd, to), b, 0o644)
		}
		cpf("poly_"+p.ID+".txt", "poly_"+p.ID+".sc2")
		cpf("automan.txt", "automan.sc2")
		if sp.Ext == 1 {
			cpf("crop_"+p.ID+".txt", "crop_"+p.ID+".sc2")
		} else {
			var cb strings.Builder
			cb.WriteString("Field_ID,crop,sowing,harvest,Rex,yld,autorg,variety\n")
			for i, r := range p.Rotation {
				sow := "--------"
				if i > 0 {
					sow = proj.DateStr("DateDElong", proj.D(r.Sow))
				}
				fmt.Fprintf(&cb, "%s,%s,%s,%s,%03d,%03d,%d,%s\n", p.Field, r.Crop, sow, proj.DateStr("DateDElong", proj.D(r.Harvest)), r.Rex, r.Yld, r.AutOrg, r.Variety)
			}
			os.WriteFile(filepath.Join(pd, "crop_"+p.ID+".sc2"), []byte(cb.String()), 0o644)
			extraArgs = append(extraArgs, "CropFileFormat=csv")
		}
		// the default configuration of the folder grows something else: oat, sown and harvested on other dates
		q := *p
		q.Rotation = append(append([]proj.CropEntry{}, p.Rotation[:1]...), proj.CropEntry{Crop: "OA", Sow: isoAdd(rot[0].sow, 33), Harvest: isoAdd(rot[0].harvest, -9), Rex: 10}, proj.CropEntry{Crop: "WW", Sow: "2008-10-01", Harvest: "2009-07-30"})
		os.WriteFile(filepath.Join(pd, "crop_"+p.ID+".txt"), []byte(q.RotationTxt()), 0o644)
		var db strings.Builder
		db.WriteString("Field_ID,crop,sowing,harvest,Rex,yld,autorg,variety\n")
		for i, r := range q.Rotation {
			sow := "--------"
			if i > 0 {
				sow = proj.DateStr("DateDElong", proj.D(r.Sow))
			}
			fmt.Fprintf(&db, "%s,%s,%s,%s,%03d,%03d,%d,%s\n", p.Field, r.Crop, sow, proj.DateStr("DateDElong", proj.D(r.Harvest)), r.Rex, r.Yld, r.AutOrg, r.Variety)
		}
		os.WriteFile(filepath.Join(pd, "crop_"+p.ID+".csv"), []byte(db.String()), 0o644)
		extraArgs = append(extraArgs, "fileExtension=sc2")
	}
	start := proj.ZEIT(proj.D("2001-08-15"))
	_ = start
	for _, w := range ws {
		wx := append([]proj.Day{}, baseW...)
		for bi, sym := range w {
			for d := 0; d < 30; d++ {
				switch sym {
				case "cold":
					wx[first+bi*30+d] = proj.Day{Tmin: -2, Tavg: 2, Tmax: 6, Precip: 0.5, Rad: 6, Wind: 2, RH: 80, Sun: 3, ET0: 0.5}
				case "season":
				default:
					wx[first+bi*30+d] = c09Blocks[sym]
				}
			}
		}
		p.Weather = wx
		writeWeather(root, p)
		label := fmt.Sprintf("rotation %d table %d switches sow=%v harvest=%v irrigation=%v fertilisation=%v word=%v", sp.Rot, sp.Table, autoSow, autoHar, autoIrr, autoFert, w)
		if sp.Ext > 0 {
			label += fmt.Sprintf(" [configuration sc2 named with fileExtension, rotation format %d]", sp.Ext)
		}
		nv := len(c.Viol)
		decisions := 0
		pr := &hermes.VerifProbe{AfterEvatra: func(g *hermes.GlobalVarsMain, zeit int, wv *hermes.WaterSharedVars) {
			c.Transition(1)
			if g.EffectiveIRRIG > 0 {
				decisions++
				i := g.AKF.Index
				day := proj.FromZEIT(zeit).Format("2006-01-02")
				c.Eval(2)
				c.State(mc.NewHasher().I(zeit).F(g.INTWICK.Num).F(g.EffectiveIRRIG).Sum())
				if !autoIrr {
					c.Violate("irrigation-although-switched-off", fmt.Sprintf("%s: %g mm irrigation on %s with automatic irrigation off and no irrigation scheduled", label, g.EffectiveIRRIG*10, day), nil)
					return
				}
				if g.INTWICK.Num < g.IRRST1[i] || g.INTWICK.Num >= g.IRRST2[i]+1 || g.SAAT[i] == 0 || zeit <= g.SAAT[i] {
					c.Violate("irrigation-outside-stage-window", fmt.Sprintf("%s: automatic irrigation on %s in stage %g, configured stages %g..%g (crop %d sown on day %d)", label, day, g.INTWICK.Num, g.IRRST1[i], g.IRRST2[i], i, g.SAAT[i]), nil)
				}
				if g.EffectiveIRRIG*10 > g.IRRMAX[i]+1e-9 {
					c.Violate("irrigation-above-daily-maximum", fmt.Sprintf("%s: automatic irrigation of %g mm on %s, configured daily maximum %g mm", label, g.EffectiveIRRIG*10, day, g.IRRMAX[i]), nil)
				}
			}
		}}
		res := proj.Run(root, p.Args(root, extraArgs...), pr)
		c.Trace(1)
		if !res.Success || res.Panic != "" {
			c.Outcome("run-error")
			c.Violate("run-error", fmt.Sprintf("%s: run failed: %s %s", label, res.Err, res.Panic), nil)
		} else {
			// ---- events
			type ev struct {
				t    time.Time
				kind string
				text string
			}
			var evs []ev
			for _, l := range strings.Split(res.File("M"), "\n") {
				f := strings.Fields(l)
				if len(f) < 2 {
					continue
				}
				t, err := time.Parse("02.01.2006", f[0])
				if err != nil {
					continue
				}
				evs = append(evs, ev{t, f[1], strings.Join(f[2:], " ")})
			}
			var sows, hars []ev
			for _, e := range evs {
				switch e.kind {
				case "sowing":
					sows = append(sows, e)
				case "harvest":
					hars = append(hars, e)
				case "fertilization":
					// automatic and scheduled N applications: amounts never negative
					for _, tok := range strings.Fields(e.text) {
						if v, err := strconv.ParseFloat(tok, 64); err == nil && v < 0 {
							c.Violate("negative-N-application", fmt.Sprintf("%s: fertilisation event on %s: %s", label, e.t.Format("2006-01-02"), e.text), nil)
						}
					}
				}
			}
			c.Eval(3)
			if len(sows) != len(rot) || len(hars) != len(rot) {
				c.Violate("rotation-not-completed", fmt.Sprintf("%s: %d sowing and %d harvest events for %d rotation entries (sowing %v, harvest %v)", label, len(sows), len(hars), len(rot), evDates(sows), evDates(hars)), nil)
			} else {
				prevHar := proj.D("2001-08-15")
				for i, cr := range rot {
					s, h := sows[i].t, hars[i].t
					if !strings.Contains(sows[i].text, cr.code) || !strings.Contains(hars[i].text, cr.code) {
						c.Violate("rotation-order", fmt.Sprintf("%s: entry %d is %s but events read sowing %q harvest %q", label, i+1, cr.code, sows[i].text, hars[i].text), nil)
					}
					ys, yh := cr.sow[:4], cr.harvest[:4]
					win := func(ddmm, y string) time.Time { t, _ := time.Parse("02012006", ddmm+y); return t }
					fixedSow := !autoSow || sp.Table == 2 || cr.sow1 == "0000"
					fixedHar := !autoHar || sp.Table == 2 || cr.h2 == "0000"
					if fixedSow {
						if !s.Equal(proj.D(cr.sow)) {
							// with automatic harvest a late harvest of the preceding crop moves the sowing by design
							if !(autoHar && i > 0) {
								c.Violate("fixed-sowing-date-not-honoured", fmt.Sprintf("%s: %s sown on %s, rotation date %s", label, cr.code, s.Format("2006-01-02"), cr.sow), nil)
							}
						}
					} else {
						decisions++
						t := c16Crop(cr)
						if sp.Table == 1 {
							t.sow1 = win(cr.sow2, ys).AddDate(0, 0, -3).Format("0201")
						}
						if s.Before(win(t.sow1, ys)) || s.After(win(t.sow2, ys)) {
							c.Violate("automatic-sowing-outside-window", fmt.Sprintf("%s: %s sown on %s, window %s..%s of %s", label, cr.code, s.Format("2006-01-02"), t.sow1, t.sow2, ys), nil)
						}
					}
					if !s.After(prevHar) {
						c.Violate("sowing-not-after-previous-harvest", fmt.Sprintf("%s: %s sown on %s, previous harvest on %s", label, cr.code, s.Format("2006-01-02"), prevHar.Format("2006-01-02")), nil)
					}
					if fixedHar {
						if !h.Equal(proj.D(cr.harvest)) {
							c.Violate("fixed-harvest-date-not-honoured", fmt.Sprintf("%s: %s harvested on %s, rotation date %s", label, cr.code, h.Format("2006-01-02"), cr.harvest), nil)
						}
					} else {
						decisions++
						h2 := cr.h2
						if sp.Table == 3 {
							h2 = win(cr.sow2, ys).AddDate(0, 0, 5).Format("0201")
						}
						if h.After(win(h2, yh)) {
							c.Violate("automatic-harvest-after-latest-date", fmt.Sprintf("%s: %s harvested on %s, latest harvest date %s.%s", label, cr.code, h.Format("2006-01-02"), h2, yh), nil)
						}
					}
					if !h.After(s) {
						c.Violate("harvest-not-after-sowing", fmt.Sprintf("%s: %s sown %s harvested %s", label, cr.code, s.Format("2006-01-02"), h.Format("2006-01-02")), nil)
					}
					prevHar = h
				}
			}
			// ---- crop records
			recs := strings.Split(strings.TrimSpace(res.File("C")), "\n")
			if len(recs) != len(rot) {
				c.Violate("crop-records-count", fmt.Sprintf("%s: %d crop records for %d rotation entries: %q", label, len(recs), len(rot), recs), nil)
			} else {
				for i, cr := range rot {
					f := strings.Split(recs[i], ",")
					c.Eval(1)
					if len(f) < 2 || strings.TrimSpace(f[0]) != cr.code || strings.TrimSpace(f[1]) != cr.harvest[:4] {
						c.Violate("crop-record-code-or-year", fmt.Sprintf("%s: record %d reads %q, rotation entry is %s harvested in %s", label, i+1, recs[i], cr.code, cr.harvest[:4]), nil)
					}
				}
			}
			c.Outcome(fmt.Sprintf("rotation-ok automatic-decisions=%v", decisions > 0))
			h := mc.NewHasher().S(label).Sum()
			c.State(h)
			if decisions > 0 {
				c.NonTrivial(h)
			}
		}
		if len(c.Viol) > nv && sp.Word == nil {
			one := sp
			one.Word, one.Alpha, one.D = w, nil, 0
			bb, _ := json.Marshal(one)
			for i := nv; i < len(c.Viol); i++ {
				c.Viol[i].Spec = bb
			}
		}
	}
	c.Sample(map[string]interface{}{"rotation": sp.Rot, "table": sp.Table, "switches": sp.Switch, "words": len(ws)})
}

func evDates[T any](e []T) []string {
	var o []string
	for _, x := range e {
		o = append(o, fmt.Sprintf("%v", x))
	}
	return o
}
