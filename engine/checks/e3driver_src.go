package checks

// e3DriverSrc is added to the rewritten copy of src/hermes2go as zz_e3driver.go: it explores all schedules of the real
// dispatcher (doConcurrentBatchRun) and the real runs under the vsched scheduler and checks every execution.
const e3DriverSrc = `package main

import (
	"bytes"
	"encoding/json"
	"fmt"
	"os"
	"path/filepath"
	"regexp"
	"sort"
	"strings"
	"time"

	"github.com/zalf-rpm/Hermes2Go/hermes"
	"github.com/zalf-rpm/Hermes2Go/hermes/vsched"
)

type e3Scenario struct {
	WD         string   ` + "`json:\"wd\"`" + `
	Lines      []string ` + "`json:\"lines\"`" + `
	Conc       int      ` + "`json:\"conc\"`" + `
	Bound      int      ` + "`json:\"bound\"`" + `
	MaxExecs   int      ` + "`json:\"max_execs\"`" + `
	DeadlineS  float64  ` + "`json:\"deadline_s\"`" + `
	ExpectFail []int    ` + "`json:\"expect_fail\"`" + `
	Schedule   []int    ` + "`json:\"schedule\"`" + `
	NoPrune    bool     ` + "`json:\"no_prune\"`" + `
	LogOutput  bool     ` + "`json:\"log_output\"`" + `
	Shard      int      ` + "`json:\"shard\"`" + `
	Shards     int      ` + "`json:\"shards\"`" + `
}

type memW struct{ b *bytes.Buffer }

func (m memW) Write(s string) (int, error)      { return m.b.WriteString(s) }
func (m memW) WriteBytes(b []byte) (int, error) { return m.b.Write(b) }
func (m memW) WriteRune(r rune) (int, error)    { return m.b.WriteRune(r) }
func (m memW) WriteError(e error) (int, error)  { return m.b.WriteString(e.Error()) }
func (m memW) Close()                           {}

type world struct {
	files map[string][]*bytes.Buffer // every buffer ever opened under a path
}

func newWorld(s *hermes.HermesSession) *world {
	w := &world{files: map[string][]*bytes.Buffer{}}
	s.HermesOutWriter = func(path string, app bool) (hermes.OutWriter, error) {
		b := &bytes.Buffer{}
		if app && len(w.files[path]) > 0 {
			b = w.files[path][len(w.files[path])-1]
		} else {
			w.files[path] = append(w.files[path], b)
		}
		return memW{b}, nil
	}
	return w
}

// solo runs one line alone in a fresh session, outside the scheduler.
func solo(wd, line string) (map[string]string, bool, string) {
	s := hermes.NewHermesSession()
	w := newWorld(s)
	out := make(chan *hermes.RunReturn, 4)
	logc := make(chan string, 4096)
	s.Run(wd, strings.Fields(line), "[ref]", out, logc)
	s.Close()
	r := <-out
	files := map[string]string{}
	for p, bs := range w.files {
		files[filepath.Base(p)] = bs[len(bs)-1].String()
	}
	e := ""
	if r.Err != nil {
		e = r.Err.Error()
	}
	return files, r.Success, e
}

var errLine = regexp.MustCompile(` + "`(?m)^\\[(\\d+)\\] Error:`" + `)

func main() {
	if len(os.Args) < 2 {
		fmt.Fprintln(os.Stderr, "usage: e3driver scenario.json")
		os.Exit(2)
	}
	raw, err := os.ReadFile(os.Args[1])
	if err != nil {
		fmt.Fprintln(os.Stderr, err)
		os.Exit(2)
	}
	var sc e3Scenario
	if err := json.Unmarshal(raw, &sc); err != nil {
		fmt.Fprintln(os.Stderr, err)
		os.Exit(2)
	}
	// references
	refs := make([]map[string]string, len(sc.Lines))
	refOK := make([]bool, len(sc.Lines))
	for i, l := range sc.Lines {
		refs[i], refOK[i], _ = solo(sc.WD, l)
	}
	expectFail := map[int]bool{}
	for _, i := range sc.ExpectFail {
		expectFail[i] = true
	}
	refProblem := ""
	for i := range sc.Lines {
		if refOK[i] == expectFail[i] {
			refProblem = fmt.Sprintf("line %d alone: success=%v but the scenario expects failure=%v", i, refOK[i], expectFail[i])
		}
	}
	var w *world
	body := func() {
		session := hermes.NewHermesSession()
		w = newWorld(session)
		concurrentOperations = uint16(sc.Conc)
		doConcurrentBatchRun(session, sc.WD, 0, -1, sc.LogOutput, sc.Lines)
		session.Close()
	}
	check := func(x *vsched.Exec) {
		if x.Deadlock || x.Panic != "" || x.Capped || x.Diverged != "" {
			return
		}
		// error summary
		out := x.Output
		i := strings.Index(out, "Error Summary:")
		if i < 0 {
			vsched.Fail("no-error-summary", "the dispatcher printed no error summary")
			return
		}
		got := map[int]int{}
		for _, m := range errLine.FindAllStringSubmatch(out[i:], -1) {
			var id int
			fmt.Sscan(m[1], &id)
			got[id]++
		}
		var gl, wl []int
		for id, n := range got {
			for k := 0; k < n; k++ {
				gl = append(gl, id)
			}
		}
		for id := range expectFail {
			wl = append(wl, id)
		}
		sort.Ints(gl)
		sort.Ints(wl)
		if fmt.Sprint(gl) != fmt.Sprint(wl) {
			vsched.Fail("error-summary", fmt.Sprintf("error summary lists lines %v, lines failing on their own: %v", gl, wl))
		}
		if !strings.Contains(out[i:], fmt.Sprintf("Number of errors: %d ", len(wl))) {
			vsched.Fail("error-count", fmt.Sprintf("error count line does not say %d: %q", len(wl), out[i:]))
		}
		// result files of every line: byte-identical to the run alone; no file that no line owns
		owned := map[string]bool{}
		for li := range sc.Lines {
			if expectFail[li] {
				continue
			}
			for name, want := range refs[li] {
				owned[name] = true
				found := false
				for p, bs := range w.files {
					if filepath.Base(p) != name {
						continue
					}
					found = true
					for _, b := range bs {
						if b.String() != want {
							vsched.Fail("result-differs-from-run-alone", fmt.Sprintf("line %d (%s): file %s differs from the result of the same line run alone (%d vs %d bytes): %s", li, sc.Lines[li], name, b.Len(), len(want), firstDiff(want, b.String())))
						}
					}
				}
				if !found {
					vsched.Fail("result-file-missing", fmt.Sprintf("line %d (%s): file %s was not written", li, sc.Lines[li], name))
				}
			}
		}
		for li := range sc.Lines {
			if expectFail[li] {
				for name := range refs[li] {
					owned[name] = true
				}
			}
		}
		for p := range w.files {
			if !owned[filepath.Base(p)] {
				vsched.Fail("foreign-file-written", fmt.Sprintf("file %s was written but belongs to no line of the batch", p))
			}
		}
		vsched.Outcome("complete")
	}
	type report struct {
		*vsched.Result
		RefProblem string
		Replay     interface{}
	}
	if sc.Schedule != nil {
		// replay one schedule twice: identical observations are required before anything is believed
		a := vsched.Replay(sc.Schedule, 0, body)
		b := vsched.Replay(sc.Schedule, 0, body)
		same := len(a.Points) == len(b.Points) && a.Output == b.Output && a.Deadlock == b.Deadlock
		for i := 0; same && i < len(a.Points); i++ {
			same = a.Points[i].Key == b.Points[i].Key && a.Points[i].N == b.Points[i].N
		}
		var trace []string
		for _, p := range a.Points {
			trace = append(trace, p.Desc)
		}
		r2 := vsched.ExploreOne(sc.Schedule, body, check)
		js, _ := json.Marshal(report{Result: r2, RefProblem: refProblem, Replay: map[string]interface{}{"deterministic": same, "trace": trace, "deadlock": a.Deadlock, "blocked": a.Blocked, "panic": a.Panic}})
		fmt.Println(string(js))
		return
	}
	cfg := vsched.Config{Bound: sc.Bound, MaxExecs: sc.MaxExecs, Body: body, Check: check, NoPrune: sc.NoPrune, Shard: sc.Shard, Shards: sc.Shards}
	if sc.DeadlineS > 0 {
		cfg.Deadline = time.Now().Add(time.Duration(sc.DeadlineS * float64(time.Second)))
	}
	res := vsched.Explore(cfg)
	js, _ := json.Marshal(report{Result: res, RefProblem: refProblem})
	fmt.Println(string(js))
}

func firstDiff(a, b string) string {
	la, lb := strings.Split(a, "\n"), strings.Split(b, "\n")
	for i := 0; i < len(la) && i < len(lb); i++ {
		if la[i] != lb[i] {
			return fmt.Sprintf("line %d: alone %q, in the batch %q", i+1, strings.TrimSpace(la[i]), strings.TrimSpace(lb[i]))
		}
	}
	return "lengths differ"
}
`

// e3HooksSrc replaces the verif hook files in the rewritten copy of the hermes package: the day boundary is a
// scheduling point and a hash of the run's state enters the goroutine history (so that state-key pruning never merges
// states in which a run has computed different data).
const e3HooksSrc = `package hermes

import "github.com/zalf-rpm/Hermes2Go/hermes/vsched"

func verifConfig(g *GlobalVarsMain, cfg *Config, hp *HFilePath) {}
func verifDayStart(g *GlobalVarsMain, zeit int)                 {}
func verifAfterEvatra(g *GlobalVarsMain, zeit int, w *WaterSharedVars) {}
func verifBeforeNitro(g *GlobalVarsMain, zeit, subd int)                {}
func verifSubStep(g *GlobalVarsMain, zeit, subd int, steps, wdt float64, w *WaterSharedVars, n *NitroSharedVars) {
}
func verifDayEnd(g *GlobalVarsMain, zeit int, steps, wdt float64, c *CropSharedVars, w *WaterSharedVars) {
	s := 0.0
	for i := 0; i < g.N; i++ {
		s += g.WG[0][i]*float64(i+1) + g.C1[i]*float64(i+3) + g.NAOS[i] + g.TSOIL[0][i]
	}
	vsched.Note(zeit, s, g.OBMAS, g.PESUM, g.OUTSUM, g.SICKER, g.AKF.Index, g.INTWICK.Num)
	vsched.Yield()
}
`
