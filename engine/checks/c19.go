package checks

import (
	"encoding/json"
	"fmt"
	"math"
	"os"
	"time"

	"github.com/zalf-rpm/Hermes2Go/hermes"
	"verif/mc"
	"verif/proj"
)

// C19 — soil temperature stays inside the envelope of its boundary temperatures (discrete maximum principle).

type c19Spec struct {
	Base  e1Base   `json:"base"`
	Alpha []string `json:"alpha,omitempty"`
	D     int      `json:"d,omitempty"`
	Rep   int      `json:"rep,omitempty"`
	Word  []string `json:"word,omitempty"`
	TBase float64  `json:"tbase"`
	Long  *lwSpec  `json:"long,omitempty"` // a long world (long.go) instead of words
	GW    int      `json:"gw,omitempty"`   // constant groundwater level from the soil file inside the profile
	PTF   int      `json:"ptf,omitempty"`    // pedotransfer function 1-4 (capacity values derived from the texture fractions)
	MissT int      `json:"miss_t,omitempty"` // 1: the mean temperature of the start day is missing in the weather file (front passage around it)
	Zero  bool     `json:"zero,omitempty"`   // capacity values that are not given are written as 0 (not as empty cells) in the soil table
}

var c19Sigma = map[string]proj.Day{
	"deep-frost":    sigma["deep-frost"],
	"frost":         sigma["frost"],
	"mild":          sigma["mild"],
	"hot":           {Tmin: 22, Tavg: 30, Tmax: 38, Precip: 0, Rad: 12, Wind: 2, RH: 30, Sun: 6},
	"hot-high-rad":  {Tmin: 18, Tavg: 28, Tmax: 38, Precip: 0, Rad: 40, Wind: 2, RH: 25, Sun: 15},
	"cold-high-rad": {Tmin: -20, Tavg: -12, Tmax: -4, Precip: 0, Rad: 34, Wind: 1, RH: 50, Sun: 12},
	"wet-cool":      {Tmin: 3, Tavg: 5, Tmax: 7, Precip: 40, Rad: 2, Wind: 3, RH: 98, Sun: 0},
}
var c19Alpha = []string{"mild", "frost", "hot", "deep-frost", "hot-high-rad", "cold-high-rad", "wet-cool"}

func init() {
	for k, v := range c19Sigma {
		if _, ok := sigma[k]; !ok {
			sigma[k] = v
		}
	}
	mc.Register(&mc.Check{
		ID:        "C19",
		Technique: "explicit-state bounded exploration of the real day loop: all temperature words up to depth D (plus alternating worst-case words) for a grid of bulk density x humus x stone content x water content x profile depth; envelope invariant on every layer after every day",
		Rule: "scenario = (bulk density class 1-5 or measured 1.0-2.0, organic carbon 0-5.8 %, initial water from dryness to saturation, 1/2/3/20 layers, lower-boundary temperature) with all words of Sigma^D; " +
			"state = temperature profile; non-trivial = day on which some layer is within 0.01 K of the running envelope or the surface value changed by more than 20 K",
		Assumptions: []string{"admissible domain: mineral-soil bulk density >= 1.0 g/cm3 (below 0.57 the conductivity formula changes sign)",
			"envelope = [min,max] over the surface values actually imposed so far, the lower-boundary temperature and the initial profile; slack 1e-9 K"},
		Bound: func(t string) string {
			if t == "quick" {
				return "D=3 over 7 symbols + 4 alternating words of length 30 per scenario; 9 density values x 6 carbon levels (0-35 %, organic ones on half of the water/depth grid) x 3 water levels x 4 depths"
			}
			return "D=4 over 7 symbols + alternating words; 16 density values x 6 carbon levels (0-35 %) x 5 water levels x 4 depths"
		},
		Budget: func(t string) time.Duration {
			if t == "quick" {
				return 150 * time.Second
			}
			return 45 * time.Minute
		},
		Scenarios: func(tier string, seed int) []json.RawMessage {
			var out []c19Spec
			type bd struct {
				class int
				meas  float64
			}
			bds := []bd{{1, 0}, {3, 0}, {5, 0}, {3, 1.0}, {3, 1.2}, {3, 1.4}, {3, 1.6}, {3, 1.8}, {3, 2.0}}
			waters := []float64{0, 0.6, 1.3}
			d := 3
			if tier == "thorough" {
				bds = append(bds, bd{2, 0}, bd{4, 0}, bd{3, 1.1}, bd{3, 1.3}, bd{3, 1.5}, bd{3, 1.7}, bd{3, 1.9})
				waters = []float64{0, 0.3, 0.6, 1.0, 1.3}
				d = 4
			}
			k := 0
			for _, b := range bds {
				// organic carbon from mineral soils to peat (the bulk densities of the grid stay in the admissible range)
				for _, corg := range []float64{0, 1.2, 5.8, 12, 20, 35} {
					for _, iw := range waters {
						for _, n := range []int{1, 2, 3, 20} {
							k++
							if corg > 6 && (n == 2 || k%2 == 1) && tier == "quick" {
								continue // quick: organic horizons on half of the depth/water grid
							}
							h := proj.Horizon{Tex: "SL3", Lower: n, BD: b.class, BulkDensity: b.meas, Corg: corg, CN: 10}
							if corg > 15 {
								h.Tex = "HN"
							}
							// stone content rotates through the grid (the fine-earth bulk density is what the heat routine sees)
							h.Stone = []int{0, 0, 30, 70, 0, 85}[k%6]
							base := e1Base{Soil: "custom", Hor: []proj.Horizon{h}, GW: 99, InitW: iw, InitN: 10, ET: 3}
							// the first simulated day rotates through the year (the start profile is built on that day)
							base.Start = []string{"", "2001-10-05", "2001-01-15", "2001-12-31", "2001-07-20", "2001-11-20", "2004-02-29", "2001-10-02"}[k%8]
							// a constant groundwater table from the soil file inside the profile on part of the grid
							if n == 20 && k%3 == 0 {
								base.GW = []int{6, 12, 2}[(k/3)%3]
							} else if n == 3 && k%4 == 0 {
								base.GW = 2
							}
							tb := 8.7
							if n == 3 {
								tb = -2
							}
							out = append(out, c19Spec{Base: base, Alpha: c19Alpha, D: d, TBase: tb})
							// alternating worst cases excite the highest spatial/temporal frequencies
							for _, alt := range [][]string{{"hot-high-rad", "deep-frost"}, {"cold-high-rad", "hot"}} {
								var w []string
								for i := 0; i < 30; i++ {
									w = append(w, alt[i%2])
								}
								out = append(out, c19Spec{Base: base, Word: w, TBase: tb})
							}
						}
					}
				}
			}
			for _, lw := range lwSpecs(tier, seed, false) {
				lw := lw
				out = append(out, c19Spec{Long: &lw})
			}
			// capacity values from each of the four transfer functions (another route through the soil reader)
			for ptf := 1; ptf <= 4; ptf++ {
				for _, n := range []int{2, 9, 20} {
					for _, bdc := range []int{1, 3, 5} {
						h := proj.Horizon{Tex: "SL3", Lower: n, BD: bdc, Corg: 1.2, CN: 10, PS: 60, Sand: 50, Silt: 30, Clay: 20}
						base := e1Base{Soil: "custom", Hor: []proj.Horizon{h}, GW: 99, InitW: 0.6, InitN: 10, ET: 3}
						out = append(out, c19Spec{Base: base, Alpha: c19Alpha[:5], D: 2, TBase: 8.7, PTF: ptf})
						var w []string
						for i := 0; i < 20; i++ {
							w = append(w, []string{"hot-high-rad", "deep-frost"}[i%2])
						}
						out = append(out, c19Spec{Base: base, Word: w, TBase: 8.7, PTF: ptf})
					}
				}
			}
			// the mean temperature of the start day is missing in the weather file and filled from the adjacent days,
			// which lie on the other side of a front passage
			for _, n := range []int{2, 8, 20} {
				for _, around := range []string{"hot", "deep-frost"} {
					h := proj.Horizon{Tex: "SL3", Lower: n, BD: 3, Corg: 1.2, CN: 10}
					out = append(out, c19Spec{Base: e1Base{Soil: "custom", Hor: []proj.Horizon{h}, GW: 99, InitW: 0.6, InitN: 10, ET: 3}, Word: []string{around, "mild", "mild", "mild"}, TBase: 8.7, MissT: 1})
				}
			}
			// contrasting horizons: a loose (or dense) topsoil over a subsoil of another density class, each dry or moist. The
			// stability of the explicit scheme depends on the most conductive layer, wherever in the profile it lies.
			for _, tc := range []int{1, 2, 3, 5} {
				for _, sc := range []int{1, 3, 4, 5} {
					if tc == sc {
						continue
					}
					for _, topLow := range []int{1, 3} {
						for _, subLow := range []int{6, 20} {
							for wi, iv := range [][]float64{{0.03, 0.35}, {0.30, 0.05}, {0.03, 0.05}, {0.30, 0.35}} {
								if tier == "quick" && (tc+sc+topLow+subLow/6+wi)%2 == 1 && !(tc <= 2 && wi == 0) {
									continue
								}
								hor := []proj.Horizon{{Tex: "SS", Lower: topLow, BD: tc, Corg: 0.8, CN: 10}, {Tex: "SL4", Lower: subLow, BD: sc, Corg: 0.3, CN: 10}}
								base := e1Base{Soil: "custom", Hor: hor, GW: 99, InitVol: iv, InitN: 10, ET: 3}
								out = append(out, c19Spec{Base: base, Alpha: c19Alpha[:5], D: 2, TBase: 8.7})
								for _, alt := range [][]string{{"hot-high-rad", "deep-frost"}, {"cold-high-rad", "hot"}} {
									var w []string
									for i := 0; i < 30; i++ {
										w = append(w, alt[i%2])
									}
									out = append(out, c19Spec{Base: base, Word: w, TBase: 8.7})
								}
							}
						}
					}
				}
			}
			// soil tables in which only some horizons carry a measured density (the others fall back to their class),
			// capacity cells empty or written as 0
			for _, zero := range []bool{false, true} {
				for mask := 1; mask < 7; mask++ {
					for _, iw := range []float64{0, 0.6} {
						var hor []proj.Horizon
						for i, low := range []int{3, 8, 14} {
							h := proj.Horizon{Tex: []string{"SL3", "LT3", "SS"}[i], Lower: low, BD: []int{2, 4, 3}[i], Corg: []float64{1.5, 0.6, 0.1}[i], CN: 10}
							if mask&(1<<i) != 0 {
								h.BulkDensity = []float64{1.3, 1.7, 1.55}[i]
							}
							hor = append(hor, h)
						}
						base := e1Base{Soil: "custom", Hor: hor, GW: 99, InitW: iw, InitN: 10, ET: 3}
						out = append(out, c19Spec{Base: base, Alpha: c19Alpha[:5], D: 2, TBase: 8.7, Zero: zero})
						var w []string
						for i := 0; i < 20; i++ {
							w = append(w, []string{"hot-high-rad", "deep-frost"}[i%2])
						}
						out = append(out, c19Spec{Base: base, Word: w, TBase: 8.7, Zero: zero})
					}
				}
			}
			return mc.Specs(out)
		},
		Run: c19Run,
	})
}

type c19Probe struct {
	c        *mc.Ctx
	label    string
	lo, hi   float64
	init     bool
	prevSurf float64
	maxR     float64
}

func (l *c19Probe) widen(v float64) {
	if v < l.lo {
		l.lo = v
	}
	if v > l.hi {
		l.hi = v
	}
}

func (l *c19Probe) probe() *hermes.VerifProbe {
	return &hermes.VerifProbe{
		DayStart: func(g *hermes.GlobalVarsMain, zeit int) {
			if !l.init {
				l.init = true
				l.lo, l.hi = g.TBASE, g.TBASE
				// the initial profile lies between the start day's air temperature extremes and the lower-boundary temperature
				ilo, ihi := math.Min(g.TMIN[g.ITAG-1], g.TBASE), math.Max(g.TMAX[g.ITAG-1], g.TBASE)
				for i := 0; i <= g.N; i++ {
					if t := g.TSOIL[0][i]; !finite(t) || t < ilo-1e-9 || t > ihi+1e-9 {
						l.c.Violate("initial-profile-outside-boundary-values", fmt.Sprintf("%s day %d: initial temperature of layer %d = %.6f, outside the start day's air temperature extremes %.3f..%.3f and the lower-boundary temperature %.3f", l.label, zeit, i, t, g.TMIN[g.ITAG-1], g.TMAX[g.ITAG-1], g.TBASE), nil)
						break
					}
				}
				for i := 0; i <= g.N; i++ {
					l.widen(g.TSOIL[0][i])
				}
				l.prevSurf = g.TSOIL[0][0]
			}
		},
		DayEnd: func(g *hermes.GlobalVarsMain, zeit int, steps, wdt float64, cs *hermes.CropSharedVars, w *hermes.WaterSharedVars) {
			N := g.N
			l.c.Transition(1)
			surf := g.TSOIL[1][0]
			if os.Getenv("C19_DEBUG") != "" {
				fmt.Printf("day %d humus=%v bd=%v heatcap=%v cond=%v T=%v\n", zeit, g.HUMUS[:2], g.BD[:2], g.HEATCAP[:3], g.HEATCOND[:3], g.TSOIL[0][:4])
			}
			// the surface value itself: a mix of yesterday's surface value and a value between the day's minimum and its
			// maximum, the latter stretched by the radiation term sqrt(0.0003 x radiation) where that exceeds 1
			tmin, tmax := g.TMIN[g.TAG.Index], g.TMAX[g.TAG.Index]
			stretch := math.Max(1, math.Sqrt(0.0003*math.Max(0, g.RAD[g.TAG.Index])*200))
			slo, shi := math.Min(tmin, l.prevSurf), math.Max(tmin+(tmax-tmin)*stretch, l.prevSurf)
			if tmax >= tmin && (!finite(surf) || surf < slo-1e-9 || surf > shi+1e-9) {
				l.c.Violate("surface-value-outside-air-temperature-range", fmt.Sprintf("%s day %d: surface temperature %.6f, but the day's air temperature is %.3f..%.3f (radiation stretch %.3f), previous surface value %.6f", l.label, zeit, surf, tmin, tmax, stretch, l.prevSurf), nil)
			}
			l.widen(surf) // the surface value imposed today belongs to the envelope
			l.widen(g.TBASE)
			near := math.Abs(surf-l.prevSurf) > 20
			l.prevSurf = surf
			h := mc.NewHasher().Fs(g.TSOIL[0][:N+1]).Fs(g.TD[:N+1])
			l.c.State(h.Sum())
			l.c.Eval(2 * N)
			for i := 0; i <= N; i++ {
				for _, v := range []struct {
					name string
					t    float64
				}{{"TSOIL", g.TSOIL[0][i]}, {"TD", g.TD[i]}} {
					if !finite(v.t) {
						l.c.Violate("temperature-nonfinite", fmt.Sprintf("%s day %d: %s[%d] = %v", l.label, zeit, v.name, i, v.t), nil)
						continue
					}
					if v.t < l.lo-1e-9 || v.t > l.hi+1e-9 {
						l.c.Violate("outside-envelope", fmt.Sprintf("%s day %d: %s of layer %d = %.6f outside the envelope [%.6f, %.6f] of all boundary temperatures so far (bulk density %.2f, water %.3f)",
							l.label, zeit, v.name, i, v.t, l.lo, l.hi, g.BD[0], g.WG[0][0]), nil)
					}
					if v.t-l.lo < 0.01 || l.hi-v.t < 0.01 {
						near = true
					}
				}
			}
			for i := 0; i < N; i++ {
				if g.HEATCAP[i] != 0 {
					r := g.HEATCOND[i] / g.HEATCAP[i] / 24 / 100
					if r > l.maxR {
						l.maxR = r
					}
				}
			}
			if near {
				l.c.NonTrivial(h.I(zeit).Sum())
			}
		},
	}
}

func c19Run(raw json.RawMessage, c *mc.Ctx) {
	sp := mc.Decode[c19Spec](raw)
	root := scratchRoot()
	defer os.RemoveAll(root)
	if sp.Long != nil {
		lwRun(c, *sp.Long, root, nil, func(w *lwInfo) *hermes.VerifProbe {
			return (&c19Probe{c: c, label: "long world " + w.Name}).probe()
		})
		return
	}
	ws := [][]string{sp.Word}
	if sp.Word == nil {
		ws = words(sp.Alpha, sp.D)
	}
	ndays := 2 + len(repeatWord(ws[0], sp.Rep))
	p := e1Project(sp.Base, ndays)
	p.Config["AnnualAverageTemperature"] = fmt.Sprint(sp.TBase)
	p.ZeroCapacityCells = sp.Zero
	if sp.PTF > 0 {
		p.Config["PTF"] = fmt.Sprint(sp.PTF)
	}
	p.Weather = e1Weather(0, ws[0], false)
	p.Write(root)
	maxR := 0.0
	for _, w := range ws {
		p.Weather = e1Weather(0, repeatWord(w, sp.Rep), false)
		if sp.MissT == 1 {
			// records: 3 lead days, the start day, the measurement day, the word ...; the start day is the opposite extreme
			// of its neighbours and has no mean temperature
			opp := map[string]string{"hot": "deep-frost", "deep-frost": "hot"}[w[0]]
			p.Weather[2], p.Weather[4] = sigma[w[0]], sigma[w[0]]
			p.Weather[3] = sigma[opp]
			p.Weather[3].Tavg = -99.9
		}
		writeWeather(root, p)
		l := &c19Probe{c: c, label: fmt.Sprintf("word=%v", w)}
		nv := len(c.Viol)
		res := proj.Run(root, p.Args(root), l.probe())
		c.Trace(1)
		if l.maxR > maxR {
			maxR = l.maxR
		}
		switch {
		case res.Panic != "":
			c.Outcome("panic")
			c.Violate("run-panic", fmt.Sprintf("run panicked on valid input (word=%v): %s", w, res.Panic), nil)
		case !res.Success:
			c.Outcome("run-error")
			c.Violate("run-error", fmt.Sprintf("run failed on valid input (word=%v): %s", w, res.Err), nil)
		default:
			c.Outcome("ok")
		}
		if len(c.Viol) > nv && sp.Word == nil {
			one := sp
			one.Word, one.Alpha, one.D = w, nil, 0
			b, _ := json.Marshal(one)
			for i := nv; i < len(c.Viol); i++ {
				c.Viol[i].Spec = b
			}
		}
	}
	switch {
	case maxR >= 0.5:
		c.Outcome("diffusion number >= 0.5")
	case maxR >= 0.25:
		c.Outcome("diffusion number 0.25-0.5")
	default:
		c.Outcome("diffusion number < 0.25")
	}
	c.Sample(map[string]interface{}{"horizon": sp.Base.Hor, "init_water": sp.Base.InitW, "tbase": sp.TBase, "words": len(ws), "last_word": ws[len(ws)-1], "max_diffusion_number": maxR})
}
