package checks

import (
	"encoding/json"
	"fmt"
	"os"
	"os/exec"
	"path/filepath"
	"strings"
	"time"

	"verif/mc"
	"verif/proj"
	"verif/rewrite"
)

// ---- E3: rewritten copy of the dispatcher and the library under the vsched scheduler -------------------------------

const e3Env = "VERIF_E3DRIVER"

// e3Prepare rewrites <repo>/hermes and <repo>/src/hermes2go into the scratch directory, adds the scheduler, the
// exploration driver and the day-boundary hook, and builds the driver binary. Unknown synchronisation constructs are a
// harness error with their source position.
func e3Prepare() {
	if os.Getenv(e3Env) != "" {
		if _, err := os.Stat(os.Getenv(e3Env)); err == nil {
			return
		}
	}
	dst := filepath.Join(mc.Scratch(), "e3")
	os.RemoveAll(dst)
	repo := proj.RepoDir()
	vsImport := "github.com/zalf-rpm/Hermes2Go/hermes/vsched"
	st1, err := rewrite.Package(filepath.Join(repo, "hermes"), filepath.Join(dst, "hermes"), rewrite.Options{VschedImport: vsImport,
		Skip: func(n string) bool { return strings.HasPrefix(n, "verif_hooks_") || strings.HasPrefix(n, "verif_export") }})
	if err != nil {
		mc.HarnessError("rewriter: %v", err)
	}
	st2, err := rewrite.Package(filepath.Join(repo, "src", "hermes2go"), filepath.Join(dst, "main"), rewrite.Options{VschedImport: vsImport, Main: true})
	if err != nil {
		mc.HarnessError("rewriter: %v", err)
	}
	cp := func(from, to string) {
		b, err := os.ReadFile(from)
		if err != nil {
			mc.HarnessError("e3 prepare: %v", err)
		}
		os.MkdirAll(filepath.Dir(to), 0o755)
		if err := os.WriteFile(to, b, 0o644); err != nil {
			mc.HarnessError("e3 prepare: %v", err)
		}
	}
	cp(filepath.Join(repo, "hermes", "go.mod"), filepath.Join(dst, "hermes", "go.mod"))
	cp(filepath.Join(repo, "hermes", "go.sum"), filepath.Join(dst, "hermes", "go.sum"))
	vs, _ := filepath.Glob(filepath.Join(mc.VerifDir(), "engine", "vsched", "*.go"))
	for _, f := range vs {
		if !strings.HasSuffix(f, "_test.go") {
			cp(f, filepath.Join(dst, "hermes", "vsched", filepath.Base(f)))
		}
	}
	cp(filepath.Join(mc.VerifDir(), "engine", "vsched", "vatomic", "vatomic.go.src"), filepath.Join(dst, "hermes", "vsched", "vatomic", "vatomic.go"))
	os.WriteFile(filepath.Join(dst, "hermes", "verif_hooks_e3.go"), []byte(e3HooksSrc), 0o644)
	// the file pool returns immutable file contents: the value read under its lock (path and content) is reported to the
	// scheduler, which then need not distinguish the orders in which runs entered the pool (see vsched.Mutex.ValueTracked).
	// If the pool's Get no longer has the expected shape the patch is skipped and lock order stays part of the state key.
	pathGo := filepath.Join(dst, "hermes", "path.go")
	if src, err := os.ReadFile(pathGo); err == nil && strings.Count(string(src), "func (fp *FilePool) Get(fd *FileDescriptior) []byte {") == 1 && strings.Contains(string(src), "mux  vsched.Mutex") {
		patched := strings.Replace(string(src), "func (fp *FilePool) Get(fd *FileDescriptior) []byte {", "func (fp *FilePool) get0(fd *FileDescriptior) []byte {", 1)
		patched += "\n// Get reports what it read from the pool to the scheduler (added by the verification rewriter).\nfunc (fp *FilePool) Get(fd *FileDescriptior) []byte {\n\tfp.mux.ValueTracked = true\n\tdata := fp.get0(fd)\n\th := uint64(14695981039346656037)\n\tfor _, c := range data {\n\t\th = (h ^ uint64(c)) * 1099511628211\n\t}\n\tvsched.Note(\"pool\", fd.FilePath, len(data), h)\n\treturn data\n}\n"
		os.WriteFile(pathGo, []byte(patched), 0o644)
	}
	os.WriteFile(filepath.Join(dst, "main", "zz_e3driver.go"), []byte(e3DriverSrc), 0o644)
	os.WriteFile(filepath.Join(dst, "main", "go.mod"), []byte("module e3main\n\ngo 1.19\n\nrequire github.com/zalf-rpm/Hermes2Go/hermes v0.0.0\n\nrequire gopkg.in/yaml.v3 v3.0.1 // indirect\n\nreplace github.com/zalf-rpm/Hermes2Go/hermes => ../hermes\n"), 0o644)
	cp(filepath.Join(repo, "hermes", "go.sum"), filepath.Join(dst, "main", "go.sum"))
	bin := filepath.Join(dst, "e3driver")
	cmd := exec.Command("go", "build", "-o", bin, ".")
	cmd.Dir = filepath.Join(dst, "main")
	cmd.Env = append(os.Environ(), "GOFLAGS=-mod=mod", "GOPROXY=off", "GOSUMDB=off", "GOTOOLCHAIN=local", "GOWORK=off")
	if out, err := cmd.CombinedOutput(); err != nil {
		mc.HarnessError("building the rewritten dispatcher failed: %v\n%s", err, out)
	}
	os.Setenv(e3Env, bin)
	js, _ := json.Marshal(map[string]interface{}{"hermes": st1, "main": st2})
	os.WriteFile(filepath.Join(dst, "rewrite_stats.json"), js, 0o644)
	os.Setenv("VERIF_E3STATS", string(js))
}

type e3Scenario struct {
	WD         string   `json:"wd"`
	Lines      []string `json:"lines"`
	Conc       int      `json:"conc"`
	Bound      int      `json:"bound"`
	MaxExecs   int      `json:"max_execs"`
	DeadlineS  float64  `json:"deadline_s"`
	ExpectFail []int    `json:"expect_fail"`
	Schedule   []int    `json:"schedule"`
	NoPrune    bool     `json:"no_prune"`
	Shard      int      `json:"shard"`
	Shards     int      `json:"shards"`
}

type e3Failure struct {
	Class    string
	What     string
	Schedule []int
}

type e3Report struct {
	Executions, States, Transitions, MaxPoints, Pruned int
	Exhaustive                                         bool
	CapHit                                             string
	Failures                                           []e3Failure
	Outcomes                                           map[string]int
	RefProblem                                         string
	Replay                                             map[string]interface{}
}

// e3Explore runs the driver on one scenario.
func e3Explore(sc e3Scenario, dir string) (*e3Report, error) {
	bin := os.Getenv(e3Env)
	if bin == "" {
		return nil, fmt.Errorf("driver not built")
	}
	js, _ := json.Marshal(sc)
	f := filepath.Join(dir, fmt.Sprintf("scenario-%d.json", time.Now().UnixNano()))
	os.WriteFile(f, js, 0o644)
	defer os.Remove(f)
	cmd := exec.Command(bin, f)
	cmd.Env = append(os.Environ(), "GOMAXPROCS=2")
	var errb strings.Builder
	cmd.Stderr = &errb
	out, err := cmd.Output()
	if err != nil {
		return nil, fmt.Errorf("driver died: %v: %s", err, tailStr(errb.String()+string(out), 600))
	}
	var rep e3Report
	lines := strings.Split(strings.TrimSpace(string(out)), "\n")
	if err := json.Unmarshal([]byte(lines[len(lines)-1]), &rep); err != nil {
		return nil, fmt.Errorf("driver output: %v: %s", err, tailStr(string(out), 300))
	}
	return &rep, nil
}

func tailStr(s string, n int) string {
	if len(s) > n {
		return s[len(s)-n:]
	}
	return s
}

// ---- the batch world: two projects sharing the parameter folder, three plots, custom crop codes -----------------------

type batchWorld struct {
	Root  string
	Lines map[string]string // A, B, C, A2 and failing lines F*
}

// buildBatchWorld writes project p1 (plots 1 and 2 sharing every project file), project p2 (own files) and a private
// parameter folder with two crop codes that are not built in (their run-local numbers collide across runs).
func buildBatchWorld(root string, days int) *batchWorld {
	start := "2001-04-10"
	mk := func(id, plot, field, sid, soil, crop string, variety string) *proj.Project {
		b := e1Base{Soil: soil, GW: 99, InitW: 0.6, InitN: 30, ET: 3, Start: start}
		p := e1Project(b, days)
		p.ID, p.Plot, p.Field, p.SoilID = id, plot, field, sid
		p.Rotation = append(p.Rotation[:1], proj.CropEntry{Crop: crop, Sow: isoAdd(start, 1), Harvest: isoAdd(start, 300), Rex: 50, Variety: variety})
		p.Config["OutputIntervall"] = "1"
		p.Config["ManagementEvents"] = "1" // the sowing event names the crop code the run resolved
		p.Config["AnnualOutputDate"] = proj.D(isoAdd(start, days-1)).Format("0201")
		p.YearlyCols = minimalDailyWith("OUTSUM", "PerY", "SWCY1", "SWCY2", "AUFNASUM")
		p.Fert = []proj.Fert{{Date: isoAdd(start, 1), Amount: 40, Kind: "KAS"}}
		p.DailyCols = minimalDailyWith("OBMAS", "PESUM", "C1:0", "WG:1:0", "OUTSUM", "WURZ")
		word := make([]string, days+110) // (the series is longer than the period: one line runs 100 days longer than the others)
		for i := range word {
			word[i] = []string{"grow", "rain", "dry-warm"}[i%3]
			if i > days && i%9 > 1 {
				word[i] = "dry-hot-windy"
			}
		}
		p.Weather = e1Weather(0, word, false)
		return p
	}
	a := mk("p1", "1", "F1", "001", "loam12", "XWA", "")
	b := mk("p1", "2", "F2", "002", "sand20", "XWB", "")
	c := mk("p2", "1", "F1", "001", "silt20", "SM", "")
	c.SoilCSVOrder = 1 // the other project's soil table has its columns in another order
	// ... and scheduled irrigation: two events inside every period, two far behind the end date
	c.Irr = []proj.Irr{{Date: isoAdd(start, 1), MM: 20, NConc: 30}, {Date: isoAdd(start, 2), MM: 15, NConc: 0}, {Date: isoAdd(start, days+40), MM: 25, NConc: 50}, {Date: isoAdd(start, days+70), MM: 30, NConc: 40}}
	// p1: merge the two plots into one set of project files
	polyHdr := "Polyg SID  Field_ID  GH GL Ir comment\n"
	rows := func(s string) string { // drop the header line
		return s[strings.Index(s, "\n")+1:]
	}
	// plots of p1 that fail with a run error of their own: 3 = field id missing in the rotation file, 4 = soil texture that
	// is in no parameter table, 5 = tillage between sowing and harvest
	f5 := mk("p1", "5", "F5", "001", "loam12", "SM", "")
	bad := mk("p1", "4", "F1", "004", "loam12", "SM", "")
	bad.Soil.Hor = []proj.Horizon{{Tex: "XX9", Lower: 5, BD: 3, Corg: 1, CN: 10}}
	bad2 := mk("p1", "6", "F1", "006", "loam12", "SM", "")
	bad2.Soil.Hor = []proj.Horizon{{Tex: "SL3", Lower: 3, BD: 3, Corg: 1, CN: 10, FC: 30, WP: 12, PS: 44}, {Tex: "QQ7", Lower: 8, BD: 3, Corg: 0.5, CN: 10, FC: 28, WP: 13, PS: 42}}
	d := func(off int) string { return proj.DateStr("DateDElong", proj.D(isoAdd(start, off))) }
	a.Files = map[string]string{
		"poly_p1.txt": polyHdr + "1 001 F1    04 08 0 x\n2 002 F2    99 99 0 x\n3 001 FX    99 99 0 x\n4 004 F1    99 99 0 x\n5 001 F5    99 99 0 x\n6 006 F1    99 99 0 x\nend\n",
		"soil_p1.csv": strings.TrimSuffix(a.SoilCSV()+rows(b.SoilCSV())+rows(bad.SoilCSV())+rows(bad2.SoilCSV())+soilPadding(850), "\n"),
		"crop_p1.txt": a.RotationTxt() + rows(b.RotationTxt()) + rows(f5.RotationTxt()),
		"fert_p1.txt": fmt.Sprintf("Field_ID  N   Frt date\n%-9s 40 KAS  %s\n%-9s 40 KAS  %s\nend\n", "F1", d(1), "F2", d(1)),
		"til_p1.txt":  fmt.Sprintf("Field_ID  Ti Typ date\n          cm\n%-9s 20 1   %s\nend\n", "F5", d(2)),
		// groundwater series for soil 001 (line As): ordered by date, rows of soil 002 in between, one day listed twice with the same level
		"gw_p1.csv": fmt.Sprintf("SID,Date,Level\n001,%s,12\n002,%s,9\n001,%s,6\n002,%s,7\n001,%s,6\n001,%s,3\n002,%s,5\n001,%s,3\n", d(-5), d(-5), d(10), d(10), d(10), d(25), d(25), d(25)),
	}
	a.Write(root)
	c.Write(root)
	// a project whose folder name differs from p2 only in letter case (its own files, another soil)
	mk("P2", "1", "F1", "001", "sand20", "SM", "").Write(root)
	// p7: a management-event configuration that names only two of the five event kinds (the others keep their
	// defaults: disabled), with fertilisation, tillage and irrigation events happening in the run
	{
		p7 := mk("p7", "1", "F1", "001", "loam12", "SM", "")
		p7.Till = []proj.Till{{Date: isoAdd(start, 0), Depth: 15, Typ: 1}}
		p7.Irr = []proj.Irr{{Date: isoAdd(start, 2), MM: 12, NConc: 10}}
		p7.Files = map[string]string{"managementout_conf.yml": "eventformats:\n  sowing:\n    eventname: sowing\n    enabled: true\n    additionalfields:\n      Crop: '%s'\n  harvest:\n    eventname: harvest\n    enabled: true\n    additionalfields:\n      Crop: '%s'\n      Residue: '%2.1f'\nseperatorrune: 32\n"}
		p7.Write(root)
	}
	// p8: a perennial crop cut twice (the same crop at consecutive rotation entries), for the repetition family
	{
		p8 := mk("p8", "1", "F1", "001", "loam12", "AA", "")
		p8.Rotation = append(p8.Rotation[:1], proj.CropEntry{Crop: "AA", Sow: isoAdd(start, 1), Harvest: isoAdd(start, 20), Rex: 100}, proj.CropEntry{Crop: "AA", Sow: isoAdd(start, 21), Harvest: isoAdd(start, 300), Rex: 100})
		p8.Write(root)
	}
	// p3: pedotransfer function with texture fractions that do not add up to 100 %
	p3 := mk("p3", "1", "F1", "001", "loam12", "SM", "")
	p3.Soil.Hor = []proj.Horizon{{Tex: "SL3", Lower: 6, BD: 3, Corg: 1, CN: 10, PS: 45, Sand: 50, Silt: 20, Clay: 10}}
	p3.Config["PTF"] = "1"
	p3.Write(root)
	// p5: one weather file per year, the run crosses the year change and the file of the second year does not exist
	{
		b5 := e1Base{Soil: "loam12", GW: 99, InitW: 0.6, InitN: 30, ET: 3, Start: "2001-12-30"}
		p5 := e1Project(b5, days+4)
		p5.ID, p5.FCode, p5.Layout = "p5", "Y5", 1
		p5.Config["ManagementEvents"] = "1"
		p5.Weather = e1Weather(0, []string{}, false)[:5] // 27 December .. 31 December
		p5.Write(root)
	}
	// p6: multi-year weather file from which the whole second calendar year is absent (the records go on in the third year)
	{
		b6 := e1Base{Soil: "loam12", GW: 99, InitW: 0.6, InitN: 30, ET: 3, Start: "2001-12-30"}
		p6 := e1Project(b6, days+4)
		p6.ID, p6.FCode = "p6", "Y6"
		p6.Config["ManagementEvents"] = "1"
		p6.Weather = e1Weather(0, []string{}, false)[:5] // 27 December .. 31 December 2001
		p6.Write(root)
		wf := filepath.Join(root, "weather", "w", "Y6.csv")
		if txt, err := os.ReadFile(wf); err == nil {
			var extra strings.Builder
			for i := 0; i < 40; i++ {
				extra.WriteString(proj.D("2003-01-01").AddDate(0, 0, i).Format("2006-01-02") + ",6,10,14,1,10,2.5,75\n")
			}
			os.WriteFile(wf, append(txt, []byte(extra.String())...), 0o644)
		}
	}
	// a weather station whose file has minimum and maximum temperature exchanged on 8 days of the period (the reader puts
	// them right and says so), selected with fcode=WB
	if wtxt, err := os.ReadFile(filepath.Join(root, "weather", "w", "W.csv")); err == nil {
		ls := strings.Split(string(wtxt), "\n")
		for i := 7; i < 15 && i < len(ls); i++ {
			f := strings.Split(ls[i], ",")
			if len(f) > 3 {
				f[1], f[3] = f[3], f[1]
				ls[i] = strings.Join(f, ",")
			}
		}
		os.WriteFile(filepath.Join(root, "weather", "w", "WB.csv"), []byte(strings.Join(ls, "\n")), 0o644)
		// ... and a station with one such day (one log message per run)
		ls = strings.Split(string(wtxt), "\n")
		if f := strings.Split(ls[8], ","); len(f) > 3 {
			f[1], f[3] = f[3], f[1]
			ls[8] = strings.Join(f, ",")
		}
		os.WriteFile(filepath.Join(root, "weather", "w", "WB1.csv"), []byte(strings.Join(ls, "\n")), 0o644)
	}
	// a weather file with a gap inside the simulated period (selected with fcode=WG)
	if wtxt, err := os.ReadFile(filepath.Join(root, "weather", "w", "W.csv")); err == nil {
		ls := strings.Split(string(wtxt), "\n")
		if len(ls) > 8 {
			ls = append(ls[:7], ls[8:]...)
		}
		os.WriteFile(filepath.Join(root, "weather", "w", "WG.csv"), []byte(strings.Join(ls, "\n")), 0o644)
	}
	os.WriteFile(filepath.Join(root, "weather", "w", "preco.txt"), []byte("Mo Corr\n 1 1.25\n 2 1.50\n 3 1.12\n 4 1.50\n 5 1.25\n 6 1.00\n 7 0.75\n 8 1.75\n 9 1.37\n10 1.62\n11 1.87\n12 2.00\n"), 0o644)
	// private parameter folder with the two custom crops
	par := filepath.Join(root, "par")
	os.MkdirAll(par, 0o755)
	shipped := filepath.Join(proj.RepoDir(), "examples", "parameter")
	ents, _ := os.ReadDir(shipped)
	for _, e := range ents {
		os.Symlink(filepath.Join(shipped, e.Name()), filepath.Join(par, e.Name()))
	}
	for code, from := range map[string]string{"XWA": "PARAM.WW", "XWB": "PARAM.WR"} {
		bts, _ := os.ReadFile(filepath.Join(shipped, from))
		os.WriteFile(filepath.Join(par, "PARAM."+code), bts, 0o644)
	}
	w := &batchWorld{Root: root, Lines: map[string]string{
		"A":  "project=p1 plotNr=1 fcode=W parameter=par",
		"B":  "project=p1 plotNr=2 fcode=W parameter=par",
		"C":  "project=p2 plotNr=1 fcode=W parameter=par poligonID=C",
		"A2": "project=p1 plotNr=1 fcode=W parameter=par poligonID=X",
		// the same plot and soil id with groundwater taken from the polygon file (min/max 4-8 dm) instead of the soil file
		"Ag": "project=p1 plotNr=1 fcode=W parameter=par poligonID=Q GroundWaterFrom=0",
		"Cu":  "project=P2 plotNr=1 fcode=W parameter=par poligonID=CU",
		// project p2 with the weather station whose minimum/maximum temperatures are exchanged on 8 days (two output ids)
		"Cw":  "project=p2 plotNr=1 fcode=WB parameter=par poligonID=W8",
		"Cw2": "project=p2 plotNr=1 fcode=WB parameter=par poligonID=W9",
		"Cv":  "project=p2 plotNr=1 fcode=WB1 parameter=par poligonID=W1",
		// a project whose management-event configuration lists only sowing and harvest
		"Cm": "project=p7 plotNr=1 fcode=W parameter=par poligonID=M7",
		// a perennial crop cut inside the period
		"Pa": "project=p8 plotNr=1 fcode=W parameter=par poligonID=P8",
		// the same plot with groundwater from the time-series file
		"As": "project=p1 plotNr=1 fcode=W parameter=par poligonID=S GroundWaterFrom=2",
		// project p2 (scheduled irrigation, some events behind the end date) with automatic irrigation instead
		"Ca": "project=p2 plotNr=1 fcode=W parameter=par poligonID=U AutoIrrigation=1",
		// ... and with an end date 100 days later, behind the other lines' latest irrigation dates
		"Cal": "project=p2 plotNr=1 fcode=W parameter=par poligonID=Z AutoIrrigation=1 EndDate=" + proj.DateStr("DateDElong", proj.D(isoAdd(start, days+99))),
		// plot 1 with the monthly precipitation correction / another missing-value code
		"Ap": "project=p1 plotNr=1 fcode=W parameter=par poligonID=V CorrectionPrecipitation=1",
		"An": "project=p1 plotNr=1 fcode=W parameter=par poligonID=Y WeatherNoneValue=-7",
		// the same plots with configuration and crop overrides on the line (must not reach other runs of the session)
		"Ao": "project=p1 plotNr=1 fcode=W parameter=par poligonID=O NDeposition=60 KcFactorBareSoil=0.6 LeachingDepth=9 CropFile=PARAM.XWA c_MAXAMAX=30 c_TSUM_1=60 c_WUMAXPF=7",
		"Bo": "project=p1 plotNr=2 fcode=W parameter=par poligonID=P Fertilization=50 ETpot=2 CropFile=PARAM.XWB c_MINTMP=1 c_KC_2=1.2",
		// lines that fail with an error of their own
		"Fsoil":  "project=p1 plotNr=1 fcode=W parameter=par poligonID=F soilId=999",
		"Fyear":  "project=p2 plotNr=1 fcode=W parameter=par poligonID=G StartYear=1990",
		"Ffield": "project=p1 plotNr=3 fcode=W parameter=par poligonID=H",
		"Ftex":   "project=p1 plotNr=4 fcode=W parameter=par poligonID=I",
		"Ftill":  "project=p1 plotNr=5 fcode=W parameter=par poligonID=J",
		"Ftex2":  "project=p1 plotNr=6 fcode=W parameter=par poligonID=M",
		"Fptf":   "project=p3 plotNr=1 fcode=W parameter=par poligonID=K",
		"Fgap":   "project=p2 plotNr=1 fcode=WG parameter=par poligonID=L",
		"Fargs":  "plotNr=1 fcode=W",
		"Fgap0":  "project=p5 plotNr=1 fcode=Y5 parameter=par poligonID=R",
		"Fgapy":  "project=p6 plotNr=1 fcode=Y6 parameter=par poligonID=R6",
		// start year after the last year of the weather series (no year of the series is loaded at all)
		"Flate": "project=p2 plotNr=1 fcode=W parameter=par poligonID=N StartYear=2005",
	}}
	return w
}

// soilPadding: n further soil profiles (ids 100..) that no plot uses; they make the shared soil file larger than 64 KiB.
func soilPadding(n int) string {
	var b strings.Builder
	for i := 0; i < n; i++ {
		fmt.Fprintf(&b, "%03d,1.25,SL4,03,3,00,10,00,12,02,,,,,,,20,0,99\n%03d,0.5,LT3,12,4,00,10,00,,,,,,,,,20,0,\n", 100+i, 100+i)
	}
	return b.String()
}
