package checks

import (
	"encoding/json"
	"fmt"
	"math"
	"os"
	"time"

	"github.com/zalf-rpm/Hermes2Go/hermes"
	"verif/mc"
	"verif/proj"
)

// C01 — soil water mass balance closes on every simulated day and sub-step.

type c01Spec struct {
	Base  e1Base   `json:"base"`
	Alpha []string `json:"alpha,omitempty"`
	D     int      `json:"d,omitempty"`
	Irr   bool     `json:"irr,omitempty"`
	// sub-step sweep: one run per n in [NFrom, NTo], rain chosen so that the day is split into n sub-steps
	NFrom int `json:"n_from,omitempty"`
	NTo   int `json:"n_to,omitempty"`
	// replay of one word only
	Word []string `json:"word,omitempty"`
	N    int      `json:"n,omitempty"`
	Long *lwSpec  `json:"long,omitempty"` // a long world (long.go) instead of words
	Idle string   `json:"idle,omitempty"` // the run starts with this symbol on its first day(s); the soil sampling comes three days later, so the first simulated day is judged as well
}

var c01Alpha = []string{"dry-warm", "drizzle", "rain", "dry-hot-windy", "frost", "heavy", "extreme"}

func c01Bases(tier string) []e1Base {
	var out []e1Base
	type sg struct {
		soil string
		gws  []int
	}
	soils := []sg{{"loam12", []int{99, 3, 12, 13}}, {"sand20", []int{99, 5, 20}}, {"silt5st", []int{99, 1, 5}}, {"stony9", []int{99, 4}},
		{"one", []int{99, 1}}, {"two", []int{99, 2}}, {"three", []int{99, 3}}, {"expl12", []int{99, 6}}, {"clay20", []int{99, 10}}, {"peat12", []int{99, 5}}}
	for _, s := range soils {
		n := soilN(s.soil)
		for _, gw := range s.gws {
			drains := [][2]float64{{0, 0}, {2, 0.5}, {float64(n), 1}}
			for _, dr := range drains {
				if int(dr[0]) > n {
					continue
				}
				for _, iw := range []float64{0, 0.5, 1.0, 1.3} {
					for _, crop := range []string{"", "SW"} {
						ets := []int{3}
						if tier == "thorough" || (iw == 0.5 && dr[0] == 0) {
							ets = []int{1, 2, 3, 4}
						}
						for _, et := range ets {
							b := e1Base{Soil: s.soil, GW: gw, DrainDep: int(dr[0]), DrainFrac: dr[1], InitW: iw, Crop: crop, ET: et}
							if crop != "" {
								b.WarmUp = 45
							}
							out = append(out, b)
						}
					}
				}
			}
		}
	}
	return out
}

func init() {
	mc.Register(&mc.Check{
		ID:        "C01",
		Technique: "explicit-state bounded exploration of the real day loop: every word of a weather alphabet from every initial state of a grid, water ledger evaluated on every sub-step and day; plus every sub-step count 1..N",
		Rule: "scenario = one initial state (soil x groundwater x drain x initial water x crop x ET method x irrigation) with all words of Sigma^D, or a range of forced sub-step counts; " +
			"state = (water profile, groundwater level, crop stage) at a day end; non-trivial = day with drain flow, capillary rise, root uptake, more than one sub-step or irrigation",
		Assumptions: []string{"constant groundwater (as quantified)", "weather values between alphabet symbols and words longer than D are outside the bound",
			"ledger tolerance 1e-9 relative to the sum of |terms| (cm water)"},
		Bound: func(t string) string {
			if t == "quick" {
				return "D=2 words over 7 symbols (49) for every initial state of the grid, D=3 for the rotating shard; sub-step counts 1..130 on 2 soils"
			}
			return "D=3 words over 7 symbols (343) for every initial state; D=4 on the rotating quarter; sub-step counts 1..260 on 3 soils"
		},
		Budget: func(t string) time.Duration {
			if t == "quick" {
				return 150 * time.Second
			}
			return 40 * time.Minute
		},
		Scenarios: func(tier string, seed int) []json.RawMessage {
			var s []c01Spec
			bases := c01Bases(tier)
			d := 2
			if tier == "thorough" {
				d = 3
			}
			// sub-step sweep first: cheapest counter-examples
			sweepSoils := []string{"stony9", "sand20"}
			nmax := 130
			if tier == "thorough" {
				sweepSoils = append(sweepSoils, "loam12")
				nmax = 260
			}
			for _, so := range sweepSoils {
				for from := 1; from <= nmax; from += 10 {
					s = append(s, c01Spec{Base: e1Base{Soil: so, GW: 99, InitW: 1.0, ET: 3}, NFrom: from, NTo: min(from+9, nmax)})
				}
			}
			for i, b := range bases {
				dd := d
				mod := 16
				if tier == "thorough" {
					mod = 4
				}
				if i%mod == ((seed%mod)+mod)%mod {
					dd = d + 1
				}
				s = append(s, c01Spec{Base: b, Alpha: c01Alpha, D: dd, Irr: i%3 == 1})
			}
			for _, lw := range lwSpecs(tier, seed, true) {
				lw := lw
				s = append(s, c01Spec{Long: &lw})
			}
			// the first simulated day itself (no sampling on it), starting with days without any flux
			for _, so := range []string{"loam12", "sand20", "three"} {
				for _, gw := range []int{99, 3} {
					for _, et := range []int{1, 2, 3, 4} {
						for _, sym := range []string{"zero-flux", "deep-frost", "no-sun-no-rad", "calm-dark", "dry-warm", "rain"} {
							s = append(s, c01Spec{Base: e1Base{Soil: so, GW: gw, InitW: 0.5, ET: et}, Idle: sym})
						}
					}
				}
			}
			return mc.Specs(s)
		},
		Run: c01Run,
	})
}

type c01Ledger struct {
	c        *mc.Ctx
	measDay  int
	firstDay int // first judged day (ZEIT)
	// per day
	zeit                         int
	nsub                         int
	sumWdt, sumRHS               float64
	sumQN, sumQD, sumGW          float64
	storStart                    float64
	wgPrev                       [21]float64 // WG[1] at previous sub-step / day end
	havePrev                     bool
	sick0, caps0, drai0          float64
	wgDayStart                   [21]float64
	label                        string
	dayNontrivial                bool
	exempt                       bool
	maxSteps                     int
	lastSteps                    float64
	rainOf                       func(zeit int) (float64, bool) // rain (cm) of the weather record written for that day
	exemptDays                   map[int]bool                   // further days on which measured values overwrite the state
	wurzSub                      int                            // root depth at the previous sub-step of the day
}

func (l *c01Ledger) probe() *hermes.VerifProbe {
	return &hermes.VerifProbe{
		DayStart: func(g *hermes.GlobalVarsMain, zeit int) {
			l.zeit = zeit
			l.nsub, l.sumWdt, l.sumRHS, l.sumQN, l.sumQD, l.sumGW = 0, 0, 0, 0, 0, 0
			l.sick0, l.caps0, l.drai0 = g.SICKER, g.CAPSUM, g.DRAISUM
			l.dayNontrivial = false
			l.exempt = zeit <= l.measDay || l.exemptDays[zeit]
		},
		AfterEvatra: func(g *hermes.GlobalVarsMain, zeit int, w *hermes.WaterSharedVars) {
			l.wurzSub = g.WURZ
			// water entering through the surface = rain of that day's record + the irrigation the model reports - actual evaporation
			if l.rainOf == nil {
				return
			}
			rain, ok := l.rainOf(zeit)
			if !ok {
				return
			}
			l.c.Eval(1)
			want := rain + g.EffectiveIRRIG - g.ETA
			if math.Abs(g.FLUSS0-want) > relTol(rain, g.EffectiveIRRIG, g.ETA) {
				l.c.Violate("surface-flux", fmt.Sprintf("%s day %d: flux through the surface %.12g cm, but rain %.12g + irrigation %.12g - actual evaporation %.12g = %.12g", l.label, zeit, g.FLUSS0, rain, g.EffectiveIRRIG, g.ETA, want), nil)
			}
		},
		SubStep: func(g *hermes.GlobalVarsMain, zeit, subd int, steps, wdt float64, w *hermes.WaterSharedVars, n *hermes.NitroSharedVars) {
			N := g.N
			l.nsub++
			l.sumWdt += wdt
			var s0, s1, tp float64
			for i := 0; i < N; i++ {
				s0 += g.WG[0][i] * g.DZ.Num
				s1 += g.WG[1][i] * g.DZ.Num
				tp += g.TP[i]
			}
			if subd == 2 && g.WURZ < l.wurzSub && tp > 0 {
				l.c.Count("days_root_depth_shrinks_during_first_substep_with_uptake_and_later_substeps", 1)
			}
			if subd == 1 {
				l.storStart = s0
				// continuity over the day boundary: the day starts with the water the previous day ended with
				if l.havePrev && !l.exempt {
					for i := 0; i < N; i++ {
						if g.WG[0][i] != l.wgPrev[i] {
							l.c.Violate("day-continuity", fmt.Sprintf("%s day %d: layer %d starts the day with %.17g but ended the previous day with %.17g",
								l.label, zeit, i+1, g.WG[0][i], l.wgPrev[i]), nil)
							break
						}
					}
				}
			} else {
				for i := 0; i < N; i++ {
					if g.WG[0][i] != l.wgPrev[i] {
						l.c.Violate("substep-continuity", fmt.Sprintf("%s day %d sub-step %d: layer %d starts with %.17g, previous sub-step ended with %.17g",
							l.label, zeit, subd, i+1, g.WG[0][i], l.wgPrev[i]), nil)
						break
					}
				}
			}
			for i := 0; i < N; i++ {
				l.wgPrev[i] = g.WG[1][i]
			}
			l.havePrev = true
			rhs := g.FLUSS0*wdt - tp*wdt - g.Q1[N] - g.QDRAIN
			l.sumRHS += rhs
			l.sumQN += g.Q1[g.OUTN]
			l.sumQD += g.QDRAIN
			l.sumGW += w.GWAUF * wdt
			l.c.Eval(1)
			if g.QDRAIN > 0 {
				l.c.Count("substeps_drain_flow", 1)
			}
			if g.Q1[N] < 0 {
				l.c.Count("substeps_capillary_rise_or_upward", 1)
			}
			if tp > 0 {
				l.c.Count("substeps_root_uptake", 1)
			}
			if w.GWAUF > 0 {
				l.c.Count("substeps_groundwater_uptake", 1)
			}
			if g.QDRAIN != 0 || g.Q1[N] < 0 || tp > 0 || steps > 1 || g.EffectiveIRRIG > 0 {
				l.dayNontrivial = true
			}
			if !l.exempt {
				res := (s1 - s0) - rhs
				if !(math.Abs(res) <= relTol(s0, s1, g.FLUSS0*wdt, tp*wdt, g.Q1[N], g.QDRAIN)) {
					l.c.Violate("substep-ledger", fmt.Sprintf("%s day %d sub-step %d/%g: storage change %.12g cm but surface %.12g - uptake %.12g - bottom %.12g - drain %.12g = %.12g (residual %.3g cm)",
						l.label, zeit, subd, steps, s1-s0, g.FLUSS0*wdt, tp*wdt, g.Q1[N], g.QDRAIN, rhs, res), nil)
				}
			}
		},
		DayEnd: func(g *hermes.GlobalVarsMain, zeit int, steps, wdt float64, cs *hermes.CropSharedVars, w *hermes.WaterSharedVars) {
			N := g.N
			l.c.Transition(1)
			if g.WURZ < l.wurzSub {
				tpd := 0.0
				for i := 0; i < N; i++ {
					tpd += g.TP[i]
				}
				if os.Getenv("C01_DEBUG") != "" {
					if f, err := os.OpenFile(os.Getenv("C01_DEBUG"), os.O_APPEND|os.O_CREATE|os.O_WRONLY, 0o644); err == nil {
						fmt.Fprintf(f, "shrink %s day %d steps %g wurz %d->%d tp %g\n", l.label, zeit, steps, l.wurzSub, g.WURZ, tpd)
						f.Close()
					}
				}
				if tpd > 0 {
					l.c.Count("days_root_depth_shrinks_with_uptake", 1)
				} else {
					l.c.Count("days_root_depth_shrinks_without_uptake", 1)
				}
			}
			l.lastSteps = steps
			if int(steps+0.5) > l.maxSteps {
				l.maxSteps = int(steps + 0.5)
			}
			h := mc.NewHasher().Fs(g.WG[1][:N]).F(g.GRW).I(g.INTWICK.Index).I(g.WURZ)
			l.c.State(h.Sum())
			if l.dayNontrivial {
				l.c.NonTrivial(h.I(zeit).Sum())
			}
			if l.exempt {
				return
			}
			// the day is split into exactly STEPS sub-steps of length wdt with STEPS*wdt = 1 day
			if float64(l.nsub) != math.Round(steps) || math.Abs(steps-math.Round(steps)) > 1e-9 {
				l.c.Violate(fmt.Sprintf("substep-count n=%d", int(math.Round(steps))), fmt.Sprintf("%s day %d: the day is split into %.17g sub-steps of %.17g d but %d were executed: %.6g of the day's fluxes is lost",
					l.label, zeit, steps, wdt, l.nsub, 1-l.sumWdt), nil)
			} else if math.Abs(l.sumWdt-1) > 1e-9 {
				l.c.Violate("substep-length", fmt.Sprintf("%s day %d: %d sub-steps of %.17g d sum to %.17g d", l.label, zeit, l.nsub, wdt, l.sumWdt), nil)
			}
			var s1 float64
			for i := 0; i < N; i++ {
				s1 += g.WG[1][i] * g.DZ.Num
			}
			if res := (s1 - l.storStart) - l.sumRHS; !(math.Abs(res) <= relTol(s1, l.storStart, l.sumRHS)*float64(l.nsub+1)) {
				l.c.Violate("day-ledger", fmt.Sprintf("%s day %d: storage change %.12g cm, summed fluxes %.12g (residual %.3g)", l.label, zeit, s1-l.storStart, l.sumRHS, res), nil)
			}
			// reported counters equal the real boundary fluxes
			if d := (g.DRAISUM - l.drai0) - 10*l.sumQD; math.Abs(d) > relTol(g.DRAISUM, 10*l.sumQD) {
				l.c.Violate("drain-counter", fmt.Sprintf("%s day %d: reported drain flow %.12g mm, real %.12g mm", l.label, zeit, g.DRAISUM-l.drai0, 10*l.sumQD), nil)
			}
			rep := (g.SICKER - l.sick0) + (g.CAPSUM - l.caps0)
			if d := rep - 10*(l.sumQN-l.sumGW); math.Abs(d) > relTol(g.SICKER, g.CAPSUM, 10*l.sumQN, 10*l.sumGW) {
				l.c.Violate("bottom-counter", fmt.Sprintf("%s day %d: reported percolation+capillary rise %.12g mm, real boundary flux %.12g mm (groundwater uptake %.12g)", l.label, zeit, rep, 10*l.sumQN, 10*l.sumGW), nil)
			}
		},
	}
}

func c01Run(raw json.RawMessage, c *mc.Ctx) {
	sp := mc.Decode[c01Spec](raw)
	root := scratchRoot()
	defer os.RemoveAll(root)
	if sp.NTo > 0 || sp.N > 0 {
		c01Sweep(sp, c, root)
		return
	}
	if sp.Idle != "" {
		p := e1Project(sp.Base, 8)
		h0 := p.Rotation[0].Harvest
		p.Meas.Date = isoAdd(h0, 3)
		word := []string{sp.Idle, sp.Idle, "mild", "mild", "rain", "dry-warm", "mild", "mild"}
		// records: 3 lead days, then the start day
		p.Weather = e1Weather(0, word, p.VerdColumn)[2:]
		p.WeatherStart = isoAdd(h0, -3)
		lead := e1Weather(0, nil, p.VerdColumn)[:3]
		p.Weather = append(lead, p.Weather[3:]...)
		p.Weather[3], p.Weather[4] = sigma[sp.Idle], sigma[sp.Idle]
		if p.VerdColumn {
			p.Weather[3].Verd, p.Weather[4].Verd = satDeficit(p.Weather[3]), satDeficit(p.Weather[4])
		}
		p.Write(root)
		start := proj.ZEIT(proj.D(h0))
		l := &c01Ledger{c: c, measDay: start - 1, exemptDays: map[int]bool{start + 3: true}, label: fmt.Sprintf("first days %s, sampling on day +3", sp.Idle)}
		res := proj.Run(root, p.Args(root), l.probe())
		c.Trace(1)
		c01Outcome(c, res, l, sp, []string{sp.Idle}, 0)
		c.Sample(map[string]interface{}{"first_days": sp.Idle, "base": sp.Base})
		return
	}
	if sp.Long != nil {
		w := lwBuild(*sp.Long)
		w.P.Write(root)
		l := &c01Ledger{c: c, measDay: w.Start, exemptDays: w.Exempt, label: "long world " + w.Name, rainOf: w.rainOf}
		res := proj.Run(root, w.P.Args(root), l.probe())
		c.Trace(1)
		c01Outcome(c, res, l, sp, []string{w.Name}, 0)
		c.Sample(map[string]interface{}{"long_world": w.Name, "days": w.Days})
		return
	}
	ws := words(sp.Alpha, sp.D)
	if sp.Word != nil {
		ws = [][]string{sp.Word}
	}
	ndays := 2 + sp.Base.WarmUp + len(ws[0])
	p := e1Project(sp.Base, ndays)
	if sp.Irr {
		p.Irr = []proj.Irr{{Date: isoAdd(p.Rotation[0].Harvest, 2+sp.Base.WarmUp), MM: 30, NConc: 10}}
		if sp.Base.DrainDep > 0 || sp.Base.GW < 99 { // half of the irrigated scenarios: two events on one day and one on the next
			p.Irr = append(p.Irr, proj.Irr{Date: isoAdd(p.Rotation[0].Harvest, 2+sp.Base.WarmUp), MM: 20, NConc: 0}, proj.Irr{Date: isoAdd(p.Rotation[0].Harvest, 3+sp.Base.WarmUp), MM: 10, NConc: 0})
		}
	}
	p.Weather = e1Weather(sp.Base.WarmUp, ws[0], p.VerdColumn)
	p.Write(root)
	start := proj.ZEIT(proj.D(p.Rotation[0].Harvest))
	for _, w := range ws {
		p.Weather = e1Weather(sp.Base.WarmUp, w, p.VerdColumn)
		writeWeather(root, p)
		l := &c01Ledger{c: c, measDay: start + 1, label: fmt.Sprintf("word=%v", w)}
		weather := p.Weather
		l.rainOf = func(zeit int) (float64, bool) { // the series starts 3 days before the first simulated day
			i := zeit - start + 3
			if i < 0 || i >= len(weather) {
				return 0, false
			}
			return weather[i].Precip / 10, true
		}
		nv := len(c.Viol)
		res := proj.Run(root, p.Args(root), l.probe())
		c.Trace(1)
		c01Outcome(c, res, l, sp, w, 0)
		if len(c.Viol) > nv && sp.Word == nil {
			// narrow the replay artefact to this word
			one := sp
			one.Word, one.Alpha, one.D = w, nil, 0
			b, _ := json.Marshal(one)
			for i := nv; i < len(c.Viol); i++ {
				c.Viol[i].Spec = b
			}
		}
	}
	c.Sample(map[string]interface{}{"initial_state": sp.Base, "irrigation": sp.Irr, "words": len(ws), "first_word": ws[0], "last_word": ws[len(ws)-1]})
}

func c01Outcome(c *mc.Ctx, res *proj.RunResult, l *c01Ledger, sp c01Spec, w []string, n int) {
	switch {
	case res.Panic != "":
		c.Outcome("panic")
		c.Violate("run-panic", fmt.Sprintf("run panicked on valid input (%v word=%v n=%d): %s", sp.Base, w, n, res.Panic), nil)
	case !res.Success:
		c.Outcome("run-error")
		c.Violate("run-error", fmt.Sprintf("run failed on valid input (%v word=%v n=%d): %s", sp.Base, w, n, res.Err), nil)
	default:
		c.Outcome("ok max sub-steps " + stepBucket(l.maxSteps))
	}
}

// substepSweep forces every sub-step count n in [from, to]: a calibration run reads the state before the rain day, the
// rain that makes the time-stepping rule choose n is computed with the model's own rule, and run is called for each n
// with the project (weather written) for that rain.
func substepSweep(base e1Base, from, to int, c *mc.Ctx, root string, run func(n int, rainMM float64, p *proj.Project, start int)) {
	ndays := 2 + 1 + 1
	p := e1Project(base, ndays)
	word := []string{"rain", "mild"}
	p.Weather = e1Weather(0, word, false)
	p.Write(root)
	start := proj.ZEIT(proj.D(p.Rotation[0].Harvest))
	rainDay := start + 2
	// calibration: capacity terms of the time-stepping rule on the rain day
	var fsc [21]float64
	var wl [21]float64
	var nl int
	cal := &hermes.VerifProbe{AfterEvatra: func(g *hermes.GlobalVarsMain, zeit int, w *hermes.WaterSharedVars) {
		if zeit != rainDay {
			return
		}
		nl = g.N
		s := 0.0
		for i := 0; i < g.N; i++ {
			s += (g.W[i] - g.WG[0][i]) * g.DZ.Num
			fsc[i] = s
			wl[i] = g.W[i] * g.DZ.Num / 3
		}
	}}
	if r := proj.Run(root, p.Args(root), cal); !r.Success || nl == 0 {
		c.Violate("run-error", fmt.Sprintf("calibration run failed: %s %s", r.Err, r.Panic), nil)
		return
	}
	zsr := func(rain float64) float64 { // rain in cm; the rule of run.go
		z := 1.0
		pri := math.Abs(rain*10 - 0.3) // FLUSS0*DZ ~ rain minus a small evaporation; floor of the rule
		switch {
		case pri > 15:
			z = 8
		case pri > 10:
			z = 4
		case pri > 5:
			z = 2
		}
		for i := 0; i < nl; i++ {
			if rain-fsc[i] > wl[i] {
				z = math.Max(z, (rain-fsc[i])/wl[i])
			}
		}
		return z
	}
	for n := from; n <= to; n++ {
		// find rain (in 0.1 mm) with ceil(zsr) == n by bisection on the monotone rule
		lo, hi := 0.0, 3000.0 // cm
		for it := 0; it < 60; it++ {
			mid := (lo + hi) / 2
			if zsr(mid) < float64(n)-0.5 {
				lo = mid
			} else {
				hi = mid
			}
		}
		rainMM := math.Round(hi*10*10) / 10
		d := sigma["rain"]
		d.Precip = rainMM
		p.Weather = e1Weather(0, word, false)
		p.Weather[5] = d
		writeWeather(root, p)
		run(n, rainMM, p, start)
	}
}

func c01Sweep(sp c01Spec, c *mc.Ctx, root string) {
	from, to := sp.NFrom, sp.NTo
	if sp.N > 0 {
		from, to = sp.N, sp.N
	}
	substepSweep(sp.Base, from, to, c, root, func(n int, rainMM float64, p *proj.Project, start int) {
		l := &c01Ledger{c: c, measDay: start + 1, label: fmt.Sprintf("sub-step sweep n=%d rain=%gmm", n, rainMM)}
		nv := len(c.Viol)
		res := proj.Run(root, p.Args(root), l.probe())
		c.Trace(1)
		c01Outcome(c, res, l, sp, nil, n)
		if l.maxSteps == n || (n <= 8 && l.maxSteps >= n) {
			c.Count("substep_counts_hit", 1)
		} else {
			c.Count("substep_counts_missed", 1)
		}
		if len(c.Viol) > nv && sp.N == 0 {
			one := sp
			one.N, one.NFrom, one.NTo = n, 0, 0
			b, _ := json.Marshal(one)
			for i := nv; i < len(c.Viol); i++ {
				c.Viol[i].Spec = b
			}
		}
	})
	c.Sample(map[string]interface{}{"sweep_soil": sp.Base.Soil, "n_from": from, "n_to": to})
}

func stepBucket(n int) string {
	switch {
	case n <= 1:
		return "1"
	case n <= 8:
		return "2-8"
	case n <= 50:
		return "9-50"
	case n <= 130:
		return "51-130"
	}
	return ">130"
}
