package checks

import (
	"encoding/json"
	"fmt"
	"math"
	"os"
	"path/filepath"
	"strconv"
	"strings"
	"time"

	"github.com/zalf-rpm/Hermes2Go/hermes"
	"verif/mc"
	"verif/proj"
	yaml "gopkg.in/yaml.v3"
)

// C09 — while a crop grows its state is finite, non-negative and inside its bounds, the development stage never
// decreases, and the reported phenology is ordered. Whole seasons under every word of 30-day weather blocks.

type c09Spec struct {
	File   string   `json:"file"`   // shipped crop parameter file (PARAM.WW, PARAM_0.SOY ...)
	Yml    bool     `json:"yml"`
	Soil   string   `json:"soil"`
	Root   int      `json:"root"`   // soil root limit (dm)
	NLevel int      `json:"nlevel"` // 0 none, 1 normal, 2 excess
	CO2    int      `json:"co2"`
	Alpha  []string `json:"alpha"`
	D      int      `json:"d"`
	Word   []string `json:"word,omitempty"`
	NFkt   int      `json:"nfkt,omitempty"` // >0: the crop file (YAML) is a copy in which the number of the N-content function is set to NFkt (functions 7-9 are used by no shipped file)
	After  bool     `json:"after,omitempty"` // the crop follows a complete winter wheat and is harvested early (before maturity)
	Self   bool     `json:"self,omitempty"`  // ... follows a complete season of itself instead
	Long   *lwSpec  `json:"long,omitempty"`  // a long world (long.go): every crop of its rotation is judged while it grows
}

// annual main crops of the property (permanent crops and ad-hoc catch-crop sets are not claimed)
var c09Annual = map[string]bool{"SM": true, "SOY": true, "SW": true, "WW": true, "WG": true, "WR": true, "TR": true, "OA": true, "WRA": true, "K": true, "ZR": true, "LUP": true, "CCM": true, "OEL": true, "WRC": true}

var c09Blocks = map[string]proj.Day{
	"warm-wet":    {Tmin: 12, Tavg: 18, Tmax: 24, Precip: 5, Rad: 14, Wind: 2, RH: 75, Sun: 6, ET0: 3},
	"hot-drought": {Tmin: 22, Tavg: 30, Tmax: 38, Precip: 0, Rad: 28, Wind: 5, RH: 25, Sun: 14, ET0: 9},
	"frost":       {Tmin: -12, Tavg: -8, Tmax: -4, Precip: 0, Rad: 4, Wind: 2, RH: 80, Sun: 2, ET0: 0.2},
	"waterlogged": {Tmin: 10, Tavg: 14, Tmax: 18, Precip: 25, Rad: 5, Wind: 3, RH: 95, Sun: 1, ET0: 1},
	"cool-wet":    {Tmin: 4, Tavg: 8, Tmax: 12, Precip: 4, Rad: 7, Wind: 3, RH: 85, Sun: 3, ET0: 1},
	"warm-dry":    {Tmin: 12, Tavg: 18, Tmax: 24, Precip: 0, Rad: 20, Wind: 2, RH: 55, Sun: 10, ET0: 4.5},
}

func c09Specs(tier string, seed int) []c09Spec {
	var out []c09Spec
	alpha, d := []string{"warm-wet", "hot-drought", "frost", "waterlogged"}, 3
	if tier == "thorough" {
		alpha, d = []string{"warm-wet", "hot-drought", "frost", "waterlogged", "cool-wet", "warm-dry"}, 4
	}
	type env struct {
		soil string
		root int
	}
	envs := []env{{"loam12", 12}, {"silt5st", 5}, {"sand20", 15}, {"clay20", 20}, {"stony9", 9}, {"three", 3}}
	i := 0
	for _, f := range c18CropFiles() {
		abbr := f[strings.LastIndex(f, ".")+1:]
		if !c09Annual[abbr] {
			continue
		}
		for _, yml := range []bool{false, true} {
			for k := 0; k < 9; k++ {
				e := envs[(k+i)%len(envs)]
				out = append(out, c09Spec{File: f, Yml: yml, Soil: e.soil, Root: e.root, NLevel: k % 3, CO2: 1 + (k/3)%3, Alpha: alpha, D: d})
			}
			// second crop of a rotation, harvested before it matures
			out = append(out, c09Spec{File: f, Yml: yml, Soil: "loam12", Root: 12, NLevel: 1, CO2: 2, Alpha: alpha[:2], D: 2, After: true})
			out = append(out, c09Spec{File: f, Yml: yml, Soil: "sand20", Root: 15, NLevel: 1, CO2: 1, Alpha: alpha[:2], D: 2, After: true, Self: true})
			i++
		}
	}
	// every N-content function (1-9) with the development and partitioning parameters of three shipped crops
	for _, f := range []string{"PARAM.WW", "PARAM.SM", "PARAM.WR"} {
		for nf := 1; nf <= 9; nf++ {
			for _, nl := range []int{0, 2} {
				out = append(out, c09Spec{File: f, Yml: true, Soil: "loam12", Root: 12, NLevel: nl, CO2: 1, Alpha: alpha, D: d - 1, NFkt: nf})
			}
		}
	}
	for _, lw := range lwSpecs(tier, seed, false) {
		lw := lw
		out = append(out, c09Spec{Long: &lw})
	}
	return out
}

func init() {
	mc.Register(&mc.Check{
		ID:        "C09",
		Technique: "explicit-state bounded exploration of whole growing seasons on the real run loop: every word of 30-day weather blocks over the growth-critical part of the season for every shipped parameter set of an annual main crop (classic and YAML) x soil/root-limit x N supply x CO2 method; crop-state invariants on every day between sowing and harvest and phenology order from the crop result file",
		Rule: "scenario = (crop file, format, soil with root limit, N level none/normal/excess, CO2 method 1-3) with all words over the block alphabet (benign seasonal weather elsewhere); every day from sowing to the day before harvest: organ masses, biomass, root mass, LAI, assimilate pool, crop N and N concentrations finite and >= 0, N-stress and transpiration ratio in [0,1], rooting depth <= profile depth and <= the soil's root limit scaled by the crop factor, stage number never decreasing; crop record: sowing <= emergence <= anthesis <= maturity <= harvest on the time axis, and each reported stage day equals the day on which the stage was seen to begin (0 when it never began); the crop is also run as second crop of a rotation (after winter wheat and after itself) and harvested early; " +
			"state = (stage, biomass, LAI, rooting depth, N content); non-trivial = day on which a stress factor is below 1 or a bound is reached",
		Assumptions: []string{"annual main crops: SM SOY SW WW WG WR TR OA WRA WRC K ZR LUP CCM OEL files as shipped (varieties included)", "the soil's root limit enters as round(limit x crop factor / 11), the rule of the model", "slack 1e-12"},
		Bound: func(t string) string {
			if t == "quick" {
				return "4 block symbols ^ 3 critical blocks (64 words) x every annual crop file x 2 formats x 9 (soil, N, CO2) combinations"
			}
			return "6 block symbols ^ 4 critical blocks (1296 words) x every annual crop file x 2 formats x 9 (soil, N, CO2) combinations"
		},
		Budget: func(t string) time.Duration {
			if t == "quick" {
				return 170 * time.Second
			}
			return 90 * time.Minute
		},
		Scenarios: func(tier string, seed int) []json.RawMessage { return mc.Specs(c09Specs(tier, seed)) },
		Run:       c09Run,
	})
}

// c09LongProbe judges every crop of a rotation on every day between its sowing and its harvest (development order only
// for annual crops: a permanent crop starts again after a cut).
func c09LongProbe(c *mc.Ctx, label string) *hermes.VerifProbe {
	lastStage, lastCrop := -1.0, -1
	lastPhyllo := -1.0
	return &hermes.VerifProbe{DayEnd: func(g *hermes.GlobalVarsMain, zeit int, steps, wdt float64, cs *hermes.CropSharedVars, wv *hermes.WaterSharedVars) {
		k := g.AKF.Index
		if g.SAAT[k] <= 0 || zeit < g.SAAT[k] || zeit >= g.ERNTE[k] {
			return
		}
		if k != lastCrop {
			lastCrop, lastStage = k, -1
			lastPhyllo = -1
		}
		c.Transition(1)
		h := mc.NewHasher().I(k).F(g.INTWICK.Num).F(g.OBMAS).F(g.LAI).I(g.WURZ).F(g.PESUM)
		c.State(h.Sum())
		if g.REDUK < 1 || g.TRREL < 1 || g.WURZ == g.N {
			c.NonTrivial(h.Sum())
		}
		day := fmt.Sprintf("%s crop %d (%s) day %s (stage %g)", label, k, g.CropTypeToString(g.FRUCHT[k], false), proj.FromZEIT(zeit).Format("2006-01-02"), g.INTWICK.Num)
		nonneg := func(name string, v float64) {
			c.Eval(1)
			if !finite(v) || v < -1e-12 {
				c.Violate("crop-state-negative-or-nonfinite "+name, fmt.Sprintf("%s: %s = %v", day, name, v), nil)
			}
		}
		for i := 0; i < 5; i++ {
			nonneg(fmt.Sprintf("organ mass %d", i+1), g.WORG[i])
		}
		nonneg("above-ground biomass", g.OBMAS)
		nonneg("root biomass", g.WUMAS)
		nonneg("leaf area index", g.LAI)
		nonneg("assimilate pool", g.ASPOO)
		nonneg("crop N content", g.PESUM)
		nonneg("N concentration above ground", g.GEHOB)
		nonneg("N concentration roots", g.WUGEH)
		for _, r := range []struct {
			n string
			v float64
		}{{"N stress factor", g.REDUK}, {"transpiration ratio", g.TRREL}, {"air-shortage factor", g.LURED}} {
			c.Eval(1)
			if !finite(r.v) || r.v < -1e-12 || r.v > 1+1e-12 {
				c.Violate("stress-factor-outside-0-1 "+r.n, fmt.Sprintf("%s: %s = %v", day, r.n, r.v), nil)
			}
		}
		c.Eval(3)
		if g.WURZ > g.N {
			c.Violate("rooting-depth-below-profile", fmt.Sprintf("%s: rooting depth %d layers, the profile has %d", day, g.WURZ, g.N), nil)
		}
		lim := math.Max(float64(g.WURZMAX), math.Round(float64(g.WURZMAX)*g.WUMAXPF/11))
		if float64(g.WURZ) > lim {
			c.Violate("rooting-depth-beyond-soil-root-limit", fmt.Sprintf("%s: rooting depth %d layers, soil root limit %d (crop factor %g/11)", day, g.WURZ, g.WURZMAX, g.WUMAXPF), nil)
		}
		if !g.DAUERKULT && g.PHYLLO < lastPhyllo-1e-9 {
			c.Violate("development-sum-decreased", fmt.Sprintf("%s: the cumulated development sum went from %.6f to %.6f", day, lastPhyllo, g.PHYLLO), nil)
		}
		lastPhyllo = g.PHYLLO
		if !g.DAUERKULT && g.INTWICK.Num < lastStage {
			c.Violate("development-stage-decreased", fmt.Sprintf("%s: stage went from %g to %g", day, lastStage, g.INTWICK.Num), nil)
		}
		lastStage = g.INTWICK.Num
	}}
}

func c09Run(raw json.RawMessage, c *mc.Ctx) {
	sp := mc.Decode[c09Spec](raw)
	root := scratchRoot()
	defer os.RemoveAll(root)
	if sp.Long != nil {
		lwRun(c, *sp.Long, root, nil, func(w *lwInfo) *hermes.VerifProbe { return c09LongProbe(c, "long world "+w.Name) })
		return
	}
	abbr := sp.File[strings.LastIndex(sp.File, ".")+1:]
	variety := ""
	if i := strings.Index(sp.File, "_"); i >= 0 {
		variety = sp.File[i+1 : strings.LastIndex(sp.File, ".")]
	}
	b := e1Base{Soil: sp.Soil, GW: 99, InitW: 0.7, InitN: []float64{0, 30, 200}[sp.NLevel], ET: 3, Start: "2001-08-15"}
	p := e1Project(b, 440)
	p.Soil.RootDepth = sp.Root
	sow, har := "2002-04-15", "2002-09-25"
	if c18Winter[abbr] {
		sow, har = "2001-10-05", "2002-07-25"
	}
	p.Rotation = append(p.Rotation[:1], proj.CropEntry{Crop: abbr, Sow: sow, Harvest: har, Rex: 50, Variety: variety}, proj.CropEntry{Crop: "WW", Sow: "2003-10-01", Harvest: "2004-07-30"})
	if sp.After {
		sow, har = "2003-04-15", "2003-07-15"
		if c18Winter[abbr] {
			sow, har = "2002-10-05", "2003-06-05"
		}
		p = e1Project(b, 720)
		p.Soil.RootDepth = sp.Root
		first := proj.CropEntry{Crop: "WW", Sow: "2001-10-05", Harvest: "2002-07-25", Rex: 50}
		if sp.Self {
			first = proj.CropEntry{Crop: abbr, Sow: "2002-04-15", Harvest: "2002-09-25", Rex: 50, Variety: variety}
			if c18Winter[abbr] {
				first.Sow, first.Harvest = "2001-10-05", "2002-07-25"
			}
		}
		p.Rotation = append(p.Rotation[:1], first, proj.CropEntry{Crop: abbr, Sow: sow, Harvest: har, Rex: 50, Variety: variety}, proj.CropEntry{Crop: "WW", Sow: "2005-10-01", Harvest: "2006-07-30"})
	}
	p.Config["CO2method"] = fmt.Sprint(sp.CO2)
	p.Config["CO2concentration"] = []string{"360", "550", "700"}[sp.CO2-1]
	p.Config["NDeposition"] = []string{"0", "20", "60"}[sp.NLevel]
	p.Config["CropParameterFormat"] = map[bool]string{true: "yml", false: "txt"}[sp.Yml]
	switch sp.NLevel {
	case 1:
		p.Fert = []proj.Fert{{Date: isoAdd(sow, 20), Amount: 80, Kind: "KAS"}}
	case 2:
		p.Fert = []proj.Fert{{Date: isoAdd(sow, 5), Amount: 300, Kind: "KAS"}, {Date: isoAdd(sow, 60), Amount: 300, Kind: "AHL"}}
	}
	wstart := proj.D(p.WeatherStart)
	baseW := seasonWeather(wstart, 760)
	// the critical blocks: spring crops from 20 days after sowing; winter crops one autumn block, the others from 150 days before harvest
	var blockStart []int
	off := func(iso string) int { return int(proj.D(iso).Sub(wstart).Hours()/24 + 0.5) }
	if c18Winter[abbr] {
		blockStart = []int{off(sow) + 20, off(har) - 150, off(har) - 120, off(har) - 90}
	} else {
		blockStart = []int{off(sow) + 20, off(sow) + 50, off(sow) + 80, off(sow) + 110}
	}
	ws := [][]string{sp.Word}
	if sp.Word == nil {
		ws = words(sp.Alpha, sp.D)
	}
	p.Weather = baseW
	p.Write(root)
	if sp.NFkt > 0 {
		paramDir := filepath.Join(proj.RepoDir(), "examples", "parameter")
		edit := filepath.Join(root, "param_edit")
		os.MkdirAll(edit, 0o755)
		ents, _ := os.ReadDir(paramDir)
		for _, e := range ents {
			if e.Name() != sp.File+".yml" {
				os.Symlink(filepath.Join(paramDir, e.Name()), filepath.Join(edit, e.Name()))
			}
		}
		cp, err := hermes.ReadCropParamFromFile(filepath.Join(paramDir, sp.File+".yml"))
		if err != nil {
			mc.HarnessError("read %s: %v", sp.File, err)
		}
		cp.NGEFKT = sp.NFkt
		if sp.NFkt == 5 && cp.RGA == 0 {
			cp.RGA, cp.RGB = 0.045, -0.52 // function 5 takes its coefficients from the file (values of the shipped beet file)
		}
		b, err := yaml.Marshal(cp)
		if err != nil {
			mc.HarnessError("marshal: %v", err)
		}
		os.WriteFile(filepath.Join(edit, sp.File+".yml"), b, 0o644)
	}
	sowZ, harZ := proj.ZEIT(proj.D(sow)), proj.ZEIT(proj.D(har))
	for _, w := range ws {
		wx := append([]proj.Day{}, baseW...)
		for bi, sym := range w {
			for d := 0; d < 30; d++ {
				wx[blockStart[len(blockStart)-len(w)+bi]+d] = c09Blocks[sym]
			}
		}
		p.Weather = wx
		writeWeather(root, p)
		label := fmt.Sprintf("%s%s (%s) soil %s root limit %d N level %d CO2 method %d word=%v", sp.File, map[bool]string{true: fmt.Sprintf(" with N-content function %d", sp.NFkt), false: ""}[sp.NFkt > 0], map[bool]string{true: "yml", false: "txt"}[sp.Yml], sp.Soil, sp.Root, sp.NLevel, sp.CO2, w)
		lastStage := -1.0
		lastPhyllo := -1.0
		nv := len(c.Viol)
		stageDOY := map[int]int{} // stage number -> day of year on which the crop under test entered it
		pr := &hermes.VerifProbe{DayEnd: func(g *hermes.GlobalVarsMain, zeit int, steps, wdt float64, cs *hermes.CropSharedVars, wv *hermes.WaterSharedVars) {
			if zeit < sowZ || zeit >= harZ {
				return
			}
			c.Transition(1)
			h := mc.NewHasher().F(g.INTWICK.Num).F(g.OBMAS).F(g.LAI).I(g.WURZ).F(g.PESUM)
			c.State(h.Sum())
			if g.REDUK < 1 || g.TRREL < 1 || g.WURZ == g.N {
				c.NonTrivial(h.Sum())
			}
			day := fmt.Sprintf("%s day %s (stage %g)", label, proj.FromZEIT(zeit).Format("2006-01-02"), g.INTWICK.Num)
			nonneg := func(name string, v float64) {
				c.Eval(1)
				if !finite(v) || v < -1e-12 {
					c.Violate("crop-state-negative-or-nonfinite "+name, fmt.Sprintf("%s: %s = %v", day, name, v), nil)
				}
			}
			for i := 0; i < 5; i++ {
				nonneg(fmt.Sprintf("organ mass %d", i+1), g.WORG[i])
			}
			nonneg("above-ground biomass", g.OBMAS)
			nonneg("root biomass", g.WUMAS)
			nonneg("leaf area index", g.LAI)
			nonneg("assimilate pool", g.ASPOO)
			nonneg("crop N content", g.PESUM)
			nonneg("N concentration above ground", g.GEHOB)
			nonneg("N concentration roots", g.WUGEH)
			for _, r := range []struct {
				n string
				v float64
			}{{"N stress factor", g.REDUK}, {"transpiration ratio", g.TRREL}, {"air-shortage factor", g.LURED}} {
				c.Eval(1)
				if !finite(r.v) || r.v < -1e-12 || r.v > 1+1e-12 {
					c.Violate("stress-factor-outside-0-1 "+r.n, fmt.Sprintf("%s: %s = %v", day, r.n, r.v), nil)
				}
			}
			c.Eval(2)
			if g.WURZ > g.N {
				c.Violate("rooting-depth-below-profile", fmt.Sprintf("%s: rooting depth %d layers, the profile has %d", day, g.WURZ, g.N), nil)
			}
			lim := math.Max(float64(g.WURZMAX), math.Round(float64(g.WURZMAX)*g.WUMAXPF/11))
			if float64(g.WURZ) > lim {
				c.Violate("rooting-depth-beyond-soil-root-limit", fmt.Sprintf("%s: rooting depth %d layers, soil root limit %d (crop factor %g/11)", day, g.WURZ, g.WURZMAX, g.WUMAXPF), nil)
			}
			if st := int(g.INTWICK.Num); stageDOY[st] == 0 {
				stageDOY[st] = g.TAG.Index + 1
			}
			c.Eval(1)
			// the cumulated development sum behind the stage number never shrinks either (a day that does not advance
			// development leaves it where it is)
			if g.PHYLLO < lastPhyllo-1e-9 {
				c.Violate("development-sum-decreased", fmt.Sprintf("%s: the cumulated development sum went from %.6f to %.6f", day, lastPhyllo, g.PHYLLO), nil)
			}
			lastPhyllo = g.PHYLLO
			if g.INTWICK.Num < lastStage {
				c.Violate("development-stage-decreased", fmt.Sprintf("%s: stage went from %g to %g", day, lastStage, g.INTWICK.Num), nil)
			}
			lastStage = g.INTWICK.Num
		}}
		var extra []string
		if sp.NFkt > 0 {
			extra = []string{"parameter=param_edit"}
		}
		res := proj.Run(root, p.Args(root, extra...), pr)
		c.Trace(1)
		if !res.Success || res.Panic != "" {
			c.Outcome("run-error")
			c.Violate("run-error", fmt.Sprintf("%s: run failed: %s %s", label, res.Err, res.Panic), nil)
		} else {
			// phenology from the crop result file: Crop,HarvestYear,Yield,SowDOY,EmergDOY,AnthDOY,MatDOY,HarvestDOY
			rec := strings.Split(strings.TrimSpace(res.File("C")), "\n")
			c.Eval(1)
			ri := 0
			if sp.After {
				ri = 1
			}
			if len(rec) <= ri || len(strings.Split(rec[ri], ",")) < 8 {
				c.Violate("crop-record-missing", fmt.Sprintf("%s: crop file %q", label, res.File("C")), nil)
			} else {
				f := strings.Split(rec[ri], ",")
				var doy []int
				for _, x := range f[3:8] {
					v, _ := strconv.Atoi(strings.TrimSpace(x))
					doy = append(doy, v)
				}
				names := []string{"sowing", "emergence", "anthesis", "maturity", "harvest"}
				// the reported stage days are the days on which the probe saw the stage begin (0 = stage never reached;
				// a stage entered on the harvest day itself is reported with the harvest day)
				for si, stage := range map[int]int{1: 2, 2: 5, 3: 6} {
					c.Eval(1)
					if want := stageDOY[stage]; doy[si] != want && !(want == 0 && doy[si] == doy[4]) {
						c.Violate("reported-stage-day-differs-from-development "+names[si], fmt.Sprintf("%s: crop record reports %s on day of year %d, the crop entered that stage on day %d (0 = never); record %q", label, names[si], doy[si], want, rec[ri]), nil)
					}
				}
				ylen := 365
				prev, prevName := 0, "sowing"
				for i := 1; i < 5; i++ {
					if doy[i] == 0 {
						continue // stage not reached
					}
					o := (doy[i] - doy[0] + ylen) % ylen
					if o < prev {
						c.Violate("phenology-out-of-order", fmt.Sprintf("%s: %s (day of year %d) reported before %s; record %q", label, names[i], doy[i], prevName, rec[ri]), nil)
						break
					}
					prev, prevName = o, names[i]
				}
				if y, _ := strconv.ParseFloat(strings.TrimSpace(f[2]), 64); !finite(y) || y < 0 {
					c.Violate("yield-negative-or-nonfinite", fmt.Sprintf("%s: yield %q", label, f[2]), nil)
				}
				c.Outcome(fmt.Sprintf("season-ok stage-reached=%g", lastStage))
			}
		}
		if len(c.Viol) > nv && sp.Word == nil {
			one := sp
			one.Word, one.Alpha, one.D = w, nil, 0
			bb, _ := json.Marshal(one)
			for i := nv; i < len(c.Viol); i++ {
				c.Viol[i].Spec = bb
			}
		}
	}
	c.Sample(map[string]interface{}{"file": sp.File, "yml": sp.Yml, "soil": sp.Soil, "root": sp.Root, "nlevel": sp.NLevel, "co2": sp.CO2, "words": len(ws)})
}
