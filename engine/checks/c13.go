package checks

import (
	"encoding/json"
	"fmt"
	"os"
	"path/filepath"
	"strings"
	"time"

	"github.com/zalf-rpm/Hermes2Go/hermes"
	"verif/mc"
	"verif/proj"
)

// C13 — alternative input encodings of the same content give byte-identical numeric results (paired whole runs).

type c13Spec struct {
	Kind string `json:"kind"` // cropparam | soil | rotation | endit | weather | dates
	File string `json:"file,omitempty"`
	Var  int    `json:"var,omitempty"`
	BBCH int    `json:"bbch,omitempty"` // cropparam: 1 = the end-of-phase BBCH codes of the classic file are kept on the phases 1, 2, 4, 6 only (or put there if the file has none); 2 = on the last phases only
	Pre  string `json:"pre,omitempty"`  // cropparam: the crop grown before the crop under test ("" = winter wheat): ZR and CCM are the shipped files that set the optional keys (sub-organ, N-content coefficients, end stage)
	Hist int    `json:"hist,omitempty"` // 1: all encodings run in ONE session that first ran another project (other column orders, formats, layout); 2: one session, encodings in reverse order
}

func c13Specs(tier string, seed int) []c13Spec {
	var out []c13Spec
	for _, f := range c18CropFiles() {
		nv := 3
		if tier == "thorough" {
			nv = 22
		}
		for v := 0; v < nv; v++ {
			out = append(out, c13Spec{Kind: "cropparam", File: f, Var: v})
		}
		for _, pre := range []string{"ZR", "CCM"} {
			out = append(out, c13Spec{Kind: "cropparam", File: f, Pre: pre})
		}
		// end-of-phase BBCH codes on some phases only (phase headlines with and without a code)
		for bb := 1; bb <= 2; bb++ {
			out = append(out, c13Spec{Kind: "cropparam", File: f, BBCH: bb})
		}
	}
	for v := 0; v < len(c13Soils()); v++ {
		out = append(out, c13Spec{Kind: "soil", Var: v})
	}
	for v := 0; v < 8; v++ {
		out = append(out, c13Spec{Kind: "rotation", Var: v})
	}
	for v := 0; v < 12; v++ {
		out = append(out, c13Spec{Kind: "endit", Var: v})
	}
	for v := 0; v < 20; v++ { // 8..11: with the monthly precipitation correction switched on; 12..15: no radiation column, four missing-value codes; 16..17: CO2 rising from year to year; 18..19: automatic irrigation over two year ends
		out = append(out, c13Spec{Kind: "weather", Var: v})
	}
	for v := 0; v < 6; v++ {
		out = append(out, c13Spec{Kind: "dates", Var: v})
	}
	// the same cases with a session history: readers that keep anything from an earlier run of the session would decode
	// this project's files in the other project's terms
	for _, k := range []struct {
		kind string
		n    int
	}{{"soil", len(c13Soils())}, {"rotation", 8}, {"endit", 12}, {"weather", 18}, {"dates", 6}} {
		for v := 0; v < k.n; v++ {
			if tier == "thorough" || v%3 == 0 {
				out = append(out, c13Spec{Kind: k.kind, Var: v, Hist: 1})
			}
			if tier == "thorough" || v%3 == 1 {
				out = append(out, c13Spec{Kind: k.kind, Var: v, Hist: 2})
			}
		}
	}
	return out
}

func init() {
	mc.Register(&mc.Check{
		ID:        "C13",
		Technique: "exhaustive enumeration of input encodings as paired complete runs: every shipped crop parameter file (and generated variants of it) in classic, shipped-YAML and converter-YAML form after a full preceding crop; generated soils, rotations, measurement sets, weather series and date formats in each supported encoding; result files compared byte for byte",
		Rule: "cropparam: rotation initial crop -> winter wheat (full season) -> crop X for every shipped file X, run with the classic file, the shipped YAML and the YAML produced by the real converter (ConvertCropParamClassicToYml + WriteCropParam); variants edit groups of fields of the classic file before converting; soil: 20 profiles in fixed-width text and CSV; rotation: 8 rotations in text and CSV; endit: 12 measurement sets in text and CSV; weather: 12 series (4 with the monthly precipitation correction on) in the three layouts; dates: 6 projects with every date-bearing input in the four date formats; " +
			"all runs of one case must produce byte-identical daily, yearly and crop files (date columns excluded where the format itself changes them); non-trivial = case whose encodings were actually read by different code paths (counted per kind)",
		Assumptions: []string{"same content = same decimal numbers in every encoding (values chosen to fit the narrowest encoding: 2-digit percentages, 4-character carbon content, dyadic temperatures with mean = (min+max)/2)", "weather layouts compared without station-height header (the day-of-year layout cannot carry one)",
			"the shipped YAML of a crop is expected to hold the same content as its classic file"},
		Bound: func(t string) string {
			return "28 crop files x " + map[string]string{"quick": "3", "thorough": "22"}[t] + " variants x 3 encodings; 20 soils x 2; 8 rotations x 2; 12 measurement sets x 2; 12 weather series x 3 layouts; 6 projects x 4 date formats"
		},
		Budget: func(t string) time.Duration {
			if t == "quick" {
				return 170 * time.Second
			}
			return 40 * time.Minute
		},
		Scenarios: func(tier string, seed int) []json.RawMessage { return mc.Specs(c13Specs(tier, seed)) },
		Run:       c13Run,
	})
}

func c13Soils() []proj.Soil {
	var out []proj.Soil
	for _, name := range []string{"sand20", "loam12", "silt5st", "stony9", "one", "two", "three", "clay20", "peat12", "expl12", "silt20"} {
		h := soilCat[name]
		n := h[len(h)-1].Lower
		out = append(out, proj.Soil{Hor: h, RootDepth: min(n, 12), GW: 99, DrainDepth: 20, DrainFrac: 0})
	}
	l := soilCat["loam12"]
	out = append(out,
		proj.Soil{Hor: l, RootDepth: 9, GW: 6, DrainDepth: 3, DrainFrac: 0.5},
		proj.Soil{Hor: l, RootDepth: 12, GW: 12, DrainDepth: 12, DrainFrac: 1},
		proj.Soil{Hor: soilCat["sand20"], RootDepth: 5, GW: 15, DrainDepth: 8, DrainFrac: 0.5},
	)
	// sand/silt/clay given (used by the pedotransfer functions)
	for ptf := 1; ptf <= 4; ptf++ {
		out = append(out, proj.Soil{Hor: []proj.Horizon{{Tex: "SL3", Lower: 3, BD: 3, Corg: 1.1, CN: 10, PS: 45, Sand: 60, Silt: 25, Clay: 15}, {Tex: "LT3", Lower: 10, BD: 4, Corg: 0.4, CN: 11, PS: 42, Sand: 30, Silt: 35, Clay: 35}},
			RootDepth: 10, GW: 99, DrainDepth: 20})
	}
	out = append(out, proj.Soil{Hor: []proj.Horizon{{Tex: "SL3", Lower: 2, BD: 2, Stone: 5, Corg: 2.25, CN: 12, FC: 30, WP: 11, PS: 44}, {Tex: "SL4", Lower: 7, BD: 3, Stone: 20, Corg: 0.75, CN: 9, FC: 27, WP: 13, PS: 41}, {Tex: "SS", Lower: 15, BD: 4, Corg: 0.1, CN: 10}},
		RootDepth: 11, GW: 99, DrainDepth: 20},
		proj.Soil{Hor: []proj.Horizon{{Tex: "TT", Lower: 20, BD: 5, Stone: 0, Corg: 3.5, CN: 10}}, RootDepth: 20, GW: 18, DrainDepth: 10, DrainFrac: 1})
	return out
}

// c13SoilTxt renders the profile in the fixed-width text format.
func c13SoilTxt(p *proj.Project) string {
	var b strings.Builder
	b.WriteString("SID Corg Te  lb B St C/N C/S Hy Rd NuHo  FC WP PS S% SI% C% lamda DraiT  Drai% GW LBG\n")
	f2 := func(v int) string {
		if v == 0 {
			return "  "
		}
		return fmt.Sprintf("%02d", v)
	}
	for i, h := range p.Soil.Hor {
		rd, nh, gw := "  ", "  ", "  "
		if i == 0 {
			rd, nh, gw = fmt.Sprintf("%02d", p.Soil.RootDepth), fmt.Sprintf("%02d", len(p.Soil.Hor)), fmt.Sprintf("%02d", p.Soil.GW)
		}
		corg := fmt.Sprintf("%4.2f", h.Corg)
		if h.Corg >= 10 {
			corg = fmt.Sprintf("%4.1f", h.Corg)
		}
		frac := fmt.Sprintf("%-3g", p.Soil.DrainFrac)
		fmt.Fprintf(&b, "%s %s %-3s %02d %d %02d %-3g     00 %s %s   %s %s %s %s %s %s 00  %02d   %s%s 01\n", p.SoilID, corg, h.Tex, h.Lower, h.BD, h.Stone, h.CN,
			rd, nh, f2(h.FC), f2(h.WP), f2(h.PS), f2(h.Sand), f2(h.Silt), f2(h.Clay), p.Soil.DrainDepth, frac, gw)
	}
	if os.Getenv("C13_DEBUG") != "" {
		fmt.Print(b.String())
	}
	return b.String()
}

const c13Daily = "OBMAS,LAI,PESUM,WURZ,INTWICK.Num,WORG:0,WORG:3,VERDUNST,C1:0,C1:3,C1:8,WG:1:0,WG:1:5,OUTSUM,SICKER,DSUMM,TSOIL:0:2,GRW"

func c13NoDateCols(vars string) string {
	var b strings.Builder
	b.WriteString("FillCharacter: ' '\nSeperatorCharacter: ','\nNaValue: n.a.\nDataColumns:\n")
	for _, v := range strings.Split(vars, ",") {
		parts := strings.Split(v, ":")
		fmt.Fprintf(&b, "- Format: '%%v'\n  VariableName: %s\n", parts[0])
		for i, ix := range parts[1:] {
			if ix != "0" {
				fmt.Fprintf(&b, "  VarIndex%d: %s\n", i+1, ix)
			}
		}
	}
	return b.String()
}

func c13Run(raw json.RawMessage, c *mc.Ctx) {
	sp := mc.Decode[c13Spec](raw)
	root := scratchRoot()
	base := root
	defer os.RemoveAll(base)
	nenc := 0
	type enc struct {
		name string
		res  string
		ok   bool
		err  string
	}
	var encs []enc
	var session *hermes.HermesSession
	if sp.Hist > 0 {
		session = hermes.NewHermesSession()
		defer session.Close()
	}
	if sp.Hist == 1 {
		// the other project: soil table with reversed column order, CSV rotation and measurements, YAML crop parameters,
		// month-first dates, weather station HH in the day-of-year layout
		hb := e1Base{Soil: "sand20", GW: 12, DrainDep: 8, DrainFrac: 0.5, InitW: 0.5, InitN: 55, ET: 2, Start: "1999-02-10"}
		hp := e1Project(hb, 200)
		hp.ID, hp.Plot, hp.Field, hp.SoilID, hp.FCode = "hh", "9", "H9", "077", "HH"
		hp.SoilCSVOrder = 1
		hp.Layout = 2
		hp.Rotation = append(hp.Rotation[:1], proj.CropEntry{Crop: "SW", Sow: "1999-03-20", Harvest: "1999-08-10", Rex: 20}, proj.CropEntry{Crop: "WR", Sow: "1999-09-20", Harvest: "2000-07-30"})
		hp.Fert = []proj.Fert{{Date: "1999-04-10", Amount: 70, Kind: "AHL"}}
		hp.Config["Dateformat"] = "DateENlong"
		hp.Config["EndDate"] = proj.DateStr("DateENlong", proj.D("1999-08-27"))
		hp.Config["CropParameterFormat"] = "yml"
		hp.Weather = seasonWeather(proj.D(hp.WeatherStart), 230)
		hp.Write(root)
		r := proj.RunSession(session, root, hp.Args(root), "[h]", nil)
		c.Trace(1)
		if !r.Success || r.Panic != "" {
			mc.HarnessError("C13: history project failed: %s %s", r.Err, r.Panic)
		}
	}
	run := func(name string, p *proj.Project, extra ...string) {
		os.RemoveAll(filepath.Join(root, "out"))
		var r *proj.RunResult
		if session != nil {
			r = proj.RunSession(session, root, p.Args(root, extra...), "[0]", nil)
		} else {
			r = proj.Run(root, p.Args(root, extra...), nil)
		}
		if session != nil {
			// a session takes input files as immutable: the next encoding is written into a working directory of its own
			nenc++
			root = filepath.Join(base, fmt.Sprintf("enc%d", nenc))
			os.MkdirAll(root, 0o755)
		}
		c.Trace(1)
		c.Transition(1)
		encs = append(encs, enc{name, c18Files(r), r.Success && r.Panic == "", r.Err + r.Panic})
	}
	label := fmt.Sprintf("%s %s variant %d", sp.Kind, sp.File, sp.Var)
	switch sp.Kind {
	case "cropparam":
		label = c13CropParam(c, sp, root, run)
	case "soil":
		s := c13Soils()[sp.Var]
		b := e1Base{Soil: "custom", Hor: s.Hor, GW: s.GW, DrainDep: s.DrainDepth, DrainFrac: s.DrainFrac, InitW: 0.7, InitN: 30, ET: 3, Start: "2001-08-15"}
		p := e1Project(b, 400)
		p.Soil = s
		p.Rotation = append(p.Rotation[:1], proj.CropEntry{Crop: "WW", Sow: "2001-10-05", Harvest: "2002-07-25", Rex: 50}, proj.CropEntry{Crop: "SM", Sow: "2003-04-20", Harvest: "2003-10-01"})
		p.Config["OutputIntervall"] = "1"
		if sp.Var >= 14 && sp.Var <= 17 {
			p.Config["PTF"] = fmt.Sprint(sp.Var - 13)
		}
		p.DailyCols = minimalDailyWith(strings.Split(c13Daily, ",")...)
		p.Weather = seasonWeather(proj.D(p.WeatherStart), 420)
		p.Write(root)
		run("csv", p)
		p.Config["SoilFileExtension"] = "txt"
		p.Files = map[string]string{"soil_" + p.ID + ".txt": c13SoilTxt(p)}
		p.Write(root)
		os.Remove(filepath.Join(root, "project", p.ID, "soil_"+p.ID+".csv"))
		run("txt", p)
		label = fmt.Sprintf("soil %d (%d horizons, gw %d, drain %d/%g)", sp.Var, len(s.Hor), s.GW, s.DrainDepth, s.DrainFrac)
	case "rotation":
		b := e1Base{Soil: "loam12", GW: 99, InitW: 0.7, InitN: 30, ET: 3, Start: "2001-08-15"}
		p := e1Project(b, 800)
		rots := [][]proj.CropEntry{
			{{Crop: "WW", Sow: "2001-10-05", Harvest: "2002-07-25", Rex: 50, Yld: 80}},
			{{Crop: "SM", Sow: "2002-04-20", Harvest: "2002-09-30", Rex: 0, Yld: 0}, {Crop: "WG", Sow: "2002-10-10", Harvest: "2003-07-10", Rex: 100, Yld: 60}},
			{{Crop: "SOY", Sow: "2002-05-01", Harvest: "2002-09-20", Rex: 20, Variety: "0"}, {Crop: "WR", Sow: "2002-10-01", Harvest: "2003-07-20", Rex: 80, AutOrg: 0}},
			{{Crop: "ZR", Sow: "2002-04-10", Harvest: "2002-10-05", Rex: 30, Variety: "chrnew"}},
			{{Crop: "K", Sow: "2002-04-25", Harvest: "2002-09-10", Rex: 5, Yld: 400}, {Crop: "SE", Sow: "2002-09-15", Harvest: "2002-11-30", Rex: 0}, {Crop: "SW", Sow: "2003-03-20", Harvest: "2003-08-05", Rex: 50}},
			{{Crop: "AA", Sow: "2002-04-10", Harvest: "2002-07-01", Rex: 100}, {Crop: "AA", Sow: "2002-07-02", Harvest: "2002-09-20", Rex: 100}},
			{{Crop: "WRA", Sow: "2001-08-25", Harvest: "2002-07-15", Rex: 60, Yld: 40}, {Crop: "WW", Sow: "2002-10-01", Harvest: "2003-07-30", Rex: 0}},
			{{Crop: "LUP", Sow: "2002-04-01", Harvest: "2002-08-20", Rex: 10}, {Crop: "OA", Sow: "2003-03-25", Harvest: "2003-08-10", Rex: 99, Yld: 55}},
		}
		p.Rotation = append(p.Rotation[:1], rots[sp.Var]...)
		p.Rotation = append(p.Rotation, proj.CropEntry{Crop: "WW", Sow: "2005-10-01", Harvest: "2006-07-30"})
		p.Config["OutputIntervall"] = "1"
		p.DailyCols = minimalDailyWith(strings.Split(c13Daily, ",")...)
		p.Weather = seasonWeather(proj.D(p.WeatherStart), 820)
		p.Write(root)
		run("txt", p)
		var bb strings.Builder
		bb.WriteString("Field_ID,crp,sowing,harvst,Rex,yld,autorg,variety,comment\n")
		for i, r := range p.Rotation {
			sow := "--------"
			if i > 0 {
				sow = proj.DateStr("DateDElong", proj.D(r.Sow))
			}
			fmt.Fprintf(&bb, "%s,%s,%s,%s,%03d,%03d,%d,%s,\n", p.Field, r.Crop, sow, proj.DateStr("DateDElong", proj.D(r.Harvest)), r.Rex, r.Yld, r.AutOrg, r.Variety)
		}
		p.Config["CropFileFormat"] = "csv"
		p.Files = map[string]string{"crop_" + p.ID + ".csv": bb.String()}
		p.Write(root)
		os.Remove(filepath.Join(root, "project", p.ID, "crop_"+p.ID+".txt"))
		run("csv", p)
		// the same table with the reader's own column names, in the customary order and in two other orders
		names := []string{"Field_ID", "crop", "sowing", "harvest", "Rex", "yld", "autorg", "variety"}
		for oi, order := range [][]int{{0, 1, 2, 3, 4, 5, 6, 7}, {1, 0, 3, 2, 5, 4, 7, 6}, {7, 6, 5, 4, 3, 2, 1, 0}} {
			var cb strings.Builder
			var hdr []string
			for _, k := range order {
				hdr = append(hdr, names[k])
			}
			cb.WriteString(strings.Join(hdr, ",") + "\n")
			for i, r := range p.Rotation {
				sow := "--------"
				if i > 0 {
					sow = proj.DateStr("DateDElong", proj.D(r.Sow))
				}
				cells := []string{p.Field, r.Crop, sow, proj.DateStr("DateDElong", proj.D(r.Harvest)), fmt.Sprintf("%03d", r.Rex), fmt.Sprintf("%03d", r.Yld), fmt.Sprint(r.AutOrg), r.Variety}
				var row []string
				for _, k := range order {
					row = append(row, cells[k])
				}
				cb.WriteString(strings.Join(row, ",") + "\n")
			}
			p.Files = map[string]string{"crop_" + p.ID + ".csv": cb.String()}
			p.Write(root)
			os.Remove(filepath.Join(root, "project", p.ID, "crop_"+p.ID+".txt"))
			run(fmt.Sprintf("csv-named-columns-order-%d", oi), p)
		}
	case "endit":
		b := e1Base{Soil: []string{"loam12", "sand20", "silt5st"}[sp.Var%3], GW: 99, InitW: 0.7, InitN: 30, ET: 3, Start: "2001-08-15"}
		p := e1Project(b, 120)
		m := p.Meas
		m.Mode = []int{1, 3, 2, 1}[sp.Var%4]
		m.Date = isoAdd("2001-08-15", []int{1, 0, 5, 30}[(sp.Var/3)%4])
		for i := range m.Water {
			m.Water[i] = []float64{0.7, 0.25, 0.125, 0.5}[sp.Var%4] + float64(i)*0.0625*float64(sp.Var%2)
			m.Nmin[i] = float64((sp.Var*7+i*13)%90 + 1)
		}
		p.Config["OutputIntervall"] = "1"
		p.DailyCols = minimalDailyWith(strings.Split(c13Daily, ",")...)
		p.Weather = seasonWeather(proj.D(p.WeatherStart), 140)
		p.Write(root)
		run("txt", p)
		var bb strings.Builder
		if sp.Var%2 == 0 {
			bb.WriteString("Id,Date,Nmin0-3,Nmin3-6,Nmin6-9,Nmin9-12,Nmin12-15,Nmin15-20,M,Water0-3,Water3-6,Water6-9,Water9-12,Water12-15,Water15-20\n")
			fmt.Fprintf(&bb, "ALLE,%s,%g,%g,%g,%g,%g,%g,%d,%g,%g,%g,%g,%g,%g\n", proj.DateStr("DateDElong", proj.D(m.Date)), m.Nmin[0], m.Nmin[1], m.Nmin[2], m.Nmin[3], m.Nmin[4], m.Nmin[5], m.Mode,
				m.Water[0], m.Water[1], m.Water[2], m.Water[3], m.Water[4], m.Water[5])
		} else {
			bb.WriteString("Plot_ID,Date,Nm03,Nm36,Nm69,M,W0_3,W3_6,W6_9,NM9-12,NM12-15,NM15-20,W9-12,W12-15,W15-20\n")
			fmt.Fprintf(&bb, "ALLE,%s,%g,%g,%g,%d,%g,%g,%g,%g,%g,%g,%g,%g,%g\n", proj.DateStr("DateDElong", proj.D(m.Date)), m.Nmin[0], m.Nmin[1], m.Nmin[2], m.Mode,
				m.Water[0], m.Water[1], m.Water[2], m.Nmin[3], m.Nmin[4], m.Nmin[5], m.Water[3], m.Water[4], m.Water[5])
		}
		p.Config["MeasurementFileFormat"] = "csv"
		p.Files = map[string]string{"endit_" + p.ID + ".csv": bb.String()}
		p.Write(root)
		os.Remove(filepath.Join(root, "project", p.ID, "endit_"+p.ID+".txt"))
		run("csv", p)
	case "weather":
		et := []int{3, 2, 4, 1, 3, 2, 3, 4, 3, 2, 3, 4, 3, 2, 4, 3, 3, 2, 3, 2}[sp.Var]
		b := e1Base{Soil: "loam12", GW: 99, InitW: 0.7, InitN: 30, ET: et, Start: []string{"2001-08-15", "2003-12-30", "2000-01-01", "1999-03-01"}[sp.Var%4]}
		yearEnd := sp.Var >= 18
		if yearEnd {
			b.Start, b.InitW = []string{"2000-05-01", "2004-03-10"}[sp.Var-18], 0.3
		}
		p := e1Project(b, map[bool]int{false: 500, true: 700}[yearEnd])
		st := proj.D(b.Start)
		p.Rotation = append(p.Rotation[:1], proj.CropEntry{Crop: "WW", Sow: st.AddDate(0, 0, 50).Format("2006-01-02"), Harvest: st.AddDate(0, 0, 340).Format("2006-01-02"), Rex: 50},
			proj.CropEntry{Crop: "SM", Sow: st.AddDate(0, 0, 900).Format("2006-01-02"), Harvest: st.AddDate(0, 0, 1000).Format("2006-01-02")})
		if yearEnd {
			// automatic irrigation (decided with a two-day rain forecast) under crops that stand over both year ends of the
			// run, the first one the end of a leap year with a wet 31 December; warm, almost dry weather
			y := st.Year()
			p.Rotation = append(p.Rotation[:1], proj.CropEntry{Crop: "SM", Sow: fmt.Sprintf("%d-10-20", y), Harvest: fmt.Sprintf("%d-03-20", y+1), Rex: 50},
				proj.CropEntry{Crop: "SM", Sow: fmt.Sprintf("%d-10-20", y+1), Harvest: fmt.Sprintf("%d-03-20", y+2), Rex: 50})
			p.Automan = "crp Sow1 Sow2 har2 TSmin Smomin Smomax Hmomin Hmomax Rainav Rainact TACCU Tbase Irrdv1 Irrdv2 Ndem1 Ndem2 Ndem3 stage1 stage 2 stage 3 Twindow orgF  amount appdat Irrlow irrdep irrmax\n" +
				c16Row(c16Crop{"SM", "", "", "1010", "3010", "3003", 0}, 8) + "\n"
			p.Config["AutoIrrigation"] = "1"
			p.Config["ManagementEvents"] = "1"
			p.Irr = []proj.Irr{}
		}
		p.Config["OutputIntervall"] = "1"
		p.DailyCols = minimalDailyWith(strings.Split(c13Daily+",TEMPdaily,RADdaily,REGENdaily,WINDdaily", ",")...)
		// the series starts on 1 January of the start year in every layout
		jan1 := fmt.Sprintf("%04d-01-01", st.Year())
		p.WeatherStart = jan1
		p.Weather = seasonWeather(proj.D(jan1), 365*3)
		if yearEnd {
			for i := range p.Weather {
				d := proj.D(jan1).AddDate(0, 0, i)
				p.Weather[i] = proj.Day{Tmin: 14, Tavg: 20, Tmax: 26, Precip: 0, Rad: 18, Wind: 2, RH: 50, Sun: 8}
				if d.Day() == 31 && d.Month() == 12 && d.Year() == st.Year() {
					p.Weather[i].Precip = 15
				} else if i%37 == 5 {
					p.Weather[i].Precip = 6
				}
			}
		}
		if sp.Var >= 4 {
			p.SunColumn = true
		}
		if sp.Var >= 12 && sp.Var < 16 {
			// no global radiation in the input (derived from the sunshine hours), with the default and with other missing-value codes
			p.NoRadColumn = true
			p.Config["WeatherNoneValue"] = []string{"-99.9", "999.9", "-999", "-1"}[sp.Var-12]
		}
		if et == 1 {
			p.VerdColumn = true
			for i := range p.Weather {
				p.Weather[i].Verd = satDeficit(p.Weather[i])
			}
		}
		if sp.Var >= 8 && sp.Var < 12 {
			p.Config["CorrectionPrecipitation"] = "1"
			// rain on every day so that the month boundaries (and 29 February) carry rain
			for i := range p.Weather {
				p.Weather[i].Precip = float64(1 + i%4)
			}
		}
		layouts := []int{0, 1, 2}
		if sp.Var >= 16 && sp.Var < 18 {
			// a CO2 concentration that rises from year to year: header slot of the year files, CO2 column of the day-of-year layout
			// (the multi-year CSV layout cannot carry it)
			layouts = []int{1, 2}
			p.Heights = &[3]float64{50, 2, 0} // (the configuration's altitude and the default wind height: what the day-of-year layout runs with)
			p.CO2ByYear = map[int]float64{}
			for y := st.Year(); y <= st.Year()+3; y++ {
				p.CO2ByYear[y] = float64(380 + 45*(y-st.Year()))
			}
			p.Config["CO2method"] = []string{"1", "3"}[sp.Var-16]
		}
		for _, layout := range layouts {
			p.Layout = layout
			delete(p.Config, "WeatherFile")
			delete(p.Config, "WeatherFileFormat")
			delete(p.Config, "WeatherNumHeader")
			os.RemoveAll(filepath.Join(root, "weather"))
			p.Write(root)
			if sp.Var >= 8 && sp.Var < 12 {
				os.WriteFile(filepath.Join(root, "weather", "w", "preco.txt"), []byte("Mo Corr\n 1 1.25\n 2 1.50\n 3 1.12\n 4 1.06\n 5 1.03\n 6 1.00\n 7 0.75\n 8 1.75\n 9 1.37\n10 1.62\n11 1.87\n12 2.00\n"), 0o644)
			}
			run(fmt.Sprintf("layout%d", layout), p)
		}
		label = fmt.Sprintf("weather series %d (ET method %d, start %s)", sp.Var, et, b.Start)
	case "dates":
		for _, f := range []string{"DateDElong", "DateENlong", "DateDEshort", "DateENshort"} {
			b := e1Base{Soil: "loam12", GW: 99, InitW: 0.7, InitN: 30, ET: 3, Start: []string{"2001-08-15", "1999-12-31", "2004-02-28"}[sp.Var%3]}
			p := e1Project(b, 300)
			st := proj.D(b.Start)
			at := func(d int) string { return st.AddDate(0, 0, d).Format("2006-01-02") }
			p.Rotation = append(p.Rotation[:1], proj.CropEntry{Crop: "WW", Sow: at(40), Harvest: at(280), Rex: 50}, proj.CropEntry{Crop: "SM", Sow: at(600), Harvest: at(700)})
			p.Fert = []proj.Fert{{Date: at(60), Amount: 50, Kind: "KAS"}, {Date: at(61), Amount: 30, Kind: "RG"}}
			p.Till = []proj.Till{{Date: at(20), Depth: 20, Typ: 1}}
			p.Irr = []proj.Irr{{Date: at(100), MM: 20, NConc: 10}}
			p.Meas.Date = at(1 + sp.Var)
			p.Config["Dateformat"] = f
			p.Config["DivideCentury"] = "50"
			if sp.Var%3 == 1 {
				// the project starts on 31.12.1999: the century split sits exactly on its first year (99 -> 1999, 00 -> 2000)
				p.Config["DivideCentury"] = "99"
			}
			p.Config["EndDate"] = proj.DateStr(f, st.AddDate(0, 0, 299))
			ann := st.AddDate(0, 0, 299).AddDate(0, 0, -40) // inside the end year, before the end date
			p.Config["AnnualOutputDate"] = map[bool]string{true: ann.Format("0201"), false: ann.Format("0102")}[strings.HasPrefix(f, "DateDE")]
			p.Config["OutputIntervall"] = "1"
			if sp.Var >= 3 {
				p.Config["GroundWaterFrom"] = "gwTimeSeries"
				p.GWSeries = []proj.GWPoint{{Date: at(-10), Level: 14}, {Date: at(50), Level: 9.5}, {Date: at(200), Level: 16}}
			}
			p.DailyCols, p.YearlyCols = c13NoDateCols(c13Daily), c13NoDateCols("OUTSUM,PerY,SWCY1")
			p.Weather = seasonWeather(proj.D(p.WeatherStart), 320)
			os.RemoveAll(filepath.Join(root, "project"))
			p.Write(root)
			run(f, p)
		}
		label = fmt.Sprintf("project %d in the four date formats", sp.Var)
	}
	c.Eval(1)
	h := mc.NewHasher().S(sp.Kind).S(sp.File).I(sp.Var).I(sp.Hist).S(sp.Pre).I(sp.BBCH).Sum()
	c.State(h)
	if len(encs) < 2 {
		return
	}
	if sp.Hist > 0 {
		label += fmt.Sprintf(" [all encodings in one session, history %d]", sp.Hist)
	}
	c.NonTrivial(h)
	for i, e := range encs {
		if !e.ok {
			c.Violate("run-failed "+sp.Kind+" "+e.name, fmt.Sprintf("%s: run with encoding %s failed: %s", label, e.name, e.err), nil)
			return
		}
		if i > 0 && e.res != encs[0].res {
			c.Violate("results-differ "+sp.Kind+" "+encs[0].name+"-vs-"+e.name, fmt.Sprintf("%s: %s", label, strings.Replace(c18Diff(encs[0].res, e.res, nil), "edited file gives", encs[0].name+" gives", 1)+" ("+e.name+")"), nil)
			return
		}
	}
	if len(strings.Split(encs[0].res, "\n")) < 50 {
		mc.HarnessError("C13 %s: result files suspiciously short", label)
	}
	c.Outcome("identical " + sp.Kind)
	c.Sample(map[string]interface{}{"case": label, "encodings": len(encs)})
}

// c13CropParam: rotation WW -> X with the classic file, the shipped YAML and the converter's YAML (variants edit the classic file first).
func c13CropParam(c *mc.Ctx, sp c13Spec, root string, run func(string, *proj.Project, ...string)) string {
	paramDir := filepath.Join(proj.RepoDir(), "examples", "parameter")
	abbr := sp.File[strings.LastIndex(sp.File, ".")+1:]
	variety := ""
	if i := strings.Index(sp.File, "_"); i >= 0 {
		variety = sp.File[i+1 : strings.LastIndex(sp.File, ".")]
	}
	b := e1Base{Soil: "loam12", GW: 99, InitW: 0.7, InitN: 40, ET: 3, Start: "2001-08-15"}
	p := e1Project(b, 780)
	rot := append(p.Rotation[:1], proj.CropEntry{Crop: "WW", Sow: "2001-10-05", Harvest: "2002-07-25", Rex: 50})
	if sp.Pre != "" {
		rot = append(p.Rotation[:1], proj.CropEntry{Crop: sp.Pre, Sow: "2002-04-15", Harvest: "2002-07-30", Rex: 0})
	}
	switch {
	case abbr == "AA" || abbr == "GR":
		rot = append(rot, proj.CropEntry{Crop: abbr, Sow: "2002-08-10", Harvest: "2003-06-01", Rex: 100, Variety: variety}, proj.CropEntry{Crop: abbr, Sow: "2003-06-02", Harvest: "2003-09-20", Rex: 100, Variety: variety})
	case c18Winter[abbr]:
		rot = append(rot, proj.CropEntry{Crop: abbr, Sow: "2002-10-05", Harvest: "2003-07-25", Rex: 50, Variety: variety})
	case abbr == "SE" || abbr == "PH" || abbr == "ORH": // catch crops directly after the cereal
		rot = append(rot, proj.CropEntry{Crop: abbr, Sow: "2002-08-05", Harvest: "2002-11-15", Rex: 0, Variety: variety}, proj.CropEntry{Crop: "SM", Sow: "2003-04-25", Harvest: "2003-09-25", Rex: 50})
	default:
		rot = append(rot, proj.CropEntry{Crop: abbr, Sow: "2003-04-15", Harvest: "2003-09-25", Rex: 50, Variety: variety})
	}
	p.Rotation = append(rot, proj.CropEntry{Crop: "WW", Sow: "2005-10-01", Harvest: "2006-07-30"})
	p.Config["OutputIntervall"] = "1"
	p.DailyCols = minimalDailyWith(strings.Split(c18Daily, ",")...)
	p.Fert = []proj.Fert{{Date: "2002-04-20", Amount: 80, Kind: "KAS"}, {Date: "2003-04-25", Amount: 60, Kind: "KAS"}}
	p.Weather = seasonWeather(proj.D(p.WeatherStart), 800)
	p.Write(root)
	// private parameter folder: every shipped table linked, the crop file under test replaced
	edit := filepath.Join(root, "param_edit")
	os.MkdirAll(edit, 0o755)
	ents, _ := os.ReadDir(paramDir)
	for _, e := range ents {
		if e.Name() != sp.File && e.Name() != sp.File+".yml" {
			os.Symlink(filepath.Join(paramDir, e.Name()), filepath.Join(edit, e.Name()))
		}
	}
	classic, err := os.ReadFile(filepath.Join(paramDir, sp.File))
	if err != nil {
		mc.HarnessError("read %s: %v", sp.File, err)
	}
	label := fmt.Sprintf("crop file %s (after winter wheat), shipped content", sp.File)
	if sp.Pre != "" {
		label = fmt.Sprintf("crop file %s (after %s), shipped content", sp.File, sp.Pre)
	}
	if sp.Var > 0 {
		// variant: edit a group of fields of the classic file (all base parameters / all parameters of one stage / partitioning of one stage)
		cp, err := hermes.ReadCropParamFromFile(filepath.Join(paramDir, sp.File+".yml"))
		if err != nil {
			mc.HarnessError("read %s: %v", sp.File, err)
		}
		groups := []string{"", "base", "stage:1", "stage:2", "part:2", "stage:3", "part:1", "stage:4", "stage:5", "stage:6", "stage:7", "part:3", "part:4", "part:5", "part:6", "stage:8", "stage:9", "stage:10", "part:7", "part:8", "part:9", "part:10"}
		cases, ok := c18BuildCases(cp, groups[sp.Var%len(groups)], 1)
		if !ok || len(cases) == 0 {
			c.Outcome("variant not applicable to this file")
			return label
		}
		lines := strings.Split(strings.ReplaceAll(string(classic), "\r\n", "\n"), "\n")
		n := 0
		for _, cs := range cases {
			if cs.line < 0 || strings.Contains(cs.name, "PRO") && n > 0 && false {
				continue
			}
			if strings.HasPrefix(cs.name, "c_PRO") {
				continue // single partitioning edits break the sum; the converter refuses such files by design
			}
			l := lines[cs.line]
			for len(l) < cs.col+max(cs.width, len(cs.text)) {
				l += " "
			}
			if cs.width == 0 {
				l = l[:cs.col] + cs.text
			} else {
				l = l[:cs.col] + cs.text + l[cs.col+cs.width:]
			}
			lines[cs.line] = l
			n++
		}
		classic = []byte(strings.Join(lines, "\n"))
		label = fmt.Sprintf("crop file %s (after winter wheat), variant with %d fields of group %s edited", sp.File, n, groups[sp.Var%len(groups)])
	}
	if sp.BBCH > 0 {
		lines := strings.Split(strings.ReplaceAll(string(classic), "\r\n", "\n"), "\n")
		ph := 0
		for i, l := range lines {
			if !strings.Contains(l, "Entwicklungsphase") || !strings.HasPrefix(strings.TrimSpace(l), "----") {
				continue
			}
			ph++
			for len(l) < 62 {
				l += "-"
			}
			head := l[:62]
			keep := map[int]bool{1: true, 2: true, 4: true, 6: true}[ph]
			if sp.BBCH == 2 {
				keep = ph >= 3
			}
			if keep {
				l = head + fmt.Sprintf("   %02d", min(99, 5+ph*13))
			} else {
				l = head
			}
			lines[i] = l
		}
		classic = []byte(strings.Join(lines, "\n"))
		label = fmt.Sprintf("crop file %s (after winter wheat), end-of-phase BBCH codes on some of its %d phases only (pattern %d)", sp.File, ph, sp.BBCH)
		p.DailyCols = minimalDailyWith(append(strings.Split(c18Daily, ","), "BBCH")...)
		p.Write(root)
	}
	os.WriteFile(filepath.Join(edit, sp.File), classic, 0o644)
	p.Config["CropParameterFormat"] = "txt"
	p.Write(root)
	run("classic", p, "parameter=param_edit")
	// converter YAML
	session := hermes.NewHermesSession()
	cpc, err := hermes.ConvertCropParamClassicToYml(filepath.Join(edit, sp.File), session)
	session.Close()
	if err != nil {
		c.Violate("converter-failed", fmt.Sprintf("%s: the converter refused the classic file: %v", label, err), nil)
		return label
	}
	if err := hermes.WriteCropParam(filepath.Join(edit, sp.File+".yml"), cpc); err != nil {
		c.Violate("converter-failed", fmt.Sprintf("%s: writing the converted file failed: %v", label, err), nil)
		return label
	}
	p.Config["CropParameterFormat"] = "yml"
	p.Write(root)
	run("converter-yaml", p, "parameter=param_edit")
	if sp.Var == 0 && sp.BBCH == 0 {
		os.Remove(filepath.Join(edit, sp.File+".yml"))
		os.Symlink(filepath.Join(paramDir, sp.File+".yml"), filepath.Join(edit, sp.File+".yml"))
		run("shipped-yaml", p, "parameter=param_edit")
	}
	return label
}
