package checks

import (
	"encoding/json"
	"fmt"
	"math"
	"os"
	"time"

	"github.com/zalf-rpm/Hermes2Go/hermes"
	"verif/mc"
	"verif/proj"
)

// C15 — hydraulic parameters physically ordered for every parameter source; saturated below the groundwater
// table; same groundwater level => same parameters.

type c15Spec struct {
	Kind string `json:"kind"` // table | explicit | ptf | gw | sinus
	Tex  string `json:"tex,omitempty"`
	WP   int    `json:"wp,omitempty"`
	PTF  int    `json:"ptf,omitempty"`
	Sand int    `json:"sand,omitempty"`
	Corgs []float64 `json:"corgs,omitempty"`
	// gw histories
	Soil   string    `json:"soil,omitempty"`
	Route  string    `json:"route,omitempty"` // table | explicit | ptf (parameter route of the gw-history soil)
	First  float64   `json:"first,omitempty"` // first level of the words in this scenario
	Levels []float64 `json:"levels,omitempty"`
	D      int       `json:"d,omitempty"`
	GH, GL, Phase int
	// single case for replay
	One *c15Case `json:"one,omitempty"`
}

type c15Case struct {
	Hor   []proj.Horizon `json:"hor"`
	PTF   int            `json:"ptf"`
	GW    int            `json:"gw"`
	LWord []float64      `json:"lword,omitempty"`
	Cls   string         `json:"cls,omitempty"`   // set in replay specs: class suffix and label of the enumerated case
	Label string         `json:"label,omitempty"`
}

var c15Textures = []string{"SU", "SU2", "SU3", "SU4", "SL2", "SL3", "SL4", "SLU", "ST2", "ST3", "SF", "SG", "SM", "SMG", "SMF", "SS", "US", "UU", "ULS", "UT2", "UT3", "UT4", "UTS",
	"LS2", "LS3", "LS4", "LT2", "LT3", "LU", "LTU", "LTS", "TT", "TL", "TU2", "TU3", "TU4", "TS4", "UN1", "UN2", "UN3", "HN", "HH1", "HH2", "HH3", "HH4", "TS2", "TS3"}

func init() {
	mc.Register(&mc.Check{
		ID:        "C15",
		Technique: "exhaustive enumeration of parameter sources through real runs (47 textures x density x carbon x stones; explicit triples; all integer texture triples x 4 transfer functions) and bounded exploration of groundwater-level histories; ordering invariants read from the live state on every day",
		Rule: "case = one soil profile (and groundwater history) run for 2+ days on the real code; parameters of every layer read on every day; " +
			"non-trivial = stones > 0, explicit or transfer-function route, a layer at/below the groundwater table, or a revisited groundwater level",
		Assumptions: []string{"transfer-function cases supply a measured pore volume of 70 % (the functions do not produce one)", "explicit values: 5 % grid with WP < FC <= PS", "same level = bit-equal level value; same parameters = bit-equal W, WMIN, PORGES, WNOR"},
		Bound: func(t string) string {
			if t == "quick" {
				return "table: 47 textures x 5 density classes x 4 carbon x 4 stone levels; explicit: all triples on the 5 % grid; transfer functions: all 3321 integer triples x 4 functions x 2 carbon levels; groundwater: all level words over 5 levels of length 4 on 3 soils x 3 routes, 12 sinusoids"
			}
			return "as quick with 8 carbon levels for table and transfer functions, level words of length 5"
		},
		Budget: func(t string) time.Duration {
			if t == "quick" {
				return 170 * time.Second
			}
			return 45 * time.Minute
		},
		Scenarios: func(tier string, seed int) []json.RawMessage {
			var out []c15Spec
			corgT := []float64{0, 1, 3, 6}
			corgP := []float64{0.5, 3}
			d := 4
			if tier == "thorough" {
				corgT = []float64{0, 0.5, 1, 2, 3, 4, 5, 6}
				corgP = corgT
				d = 5
			}
			for _, t := range c15Textures {
				out = append(out, c15Spec{Kind: "table", Tex: t, Corgs: corgT})
			}
			for wp := 5; wp <= 85; wp += 5 {
				out = append(out, c15Spec{Kind: "explicit", WP: wp})
			}
			for ptf := 1; ptf <= 4; ptf++ {
				for sand := 5; sand <= 85; sand++ {
					out = append(out, c15Spec{Kind: "ptf", PTF: ptf, Sand: sand, Corgs: corgP})
				}
			}
			for _, so := range []string{"loam12", "sand20", "silt5st"} {
				n := float64(soilN(so))
				lv := []float64{1, 3, n / 2, n/2 + 0.5, 25}
				for _, route := range []string{"table", "explicit", "ptf", "mixed-et", "mixed-te"} {
					for _, first := range lv {
						out = append(out, c15Spec{Kind: "gw", Soil: so, Route: route, First: first, Levels: lv, D: d})
					}
					// tables at and just below the surface (0 dm = water at the surface)
					top := []float64{0, 0.4, 2, 25}
					for _, first := range top {
						out = append(out, c15Spec{Kind: "gw", Soil: so, Route: route, First: first, Levels: top, D: d})
					}
				}
				for _, hl := range [][2]int{{1, int(n)}, {2, int(n) + 4}, {0, 6}} {
					for _, ph := range []int{0, 200} {
						out = append(out, c15Spec{Kind: "sinus", Soil: so, Route: "table", GH: hl[0], GL: hl[1], Phase: ph})
					}
				}
			}
			return mc.Specs(out)
		},
		Run: c15Run,
	})
}

type c15Params struct{ w, wmin, por, wnor [21]float64 }
type c15Seen struct {
	p            c15Params
	firstSegment bool // recorded before the first groundwater change of the run
}

type c15Probe struct {
	c     *mc.Ctx
	label string
	cls   string
	seen  map[uint64]c15Seen
	changed bool
	lastLvl float64
	haveLvl bool
	lvl   map[uint64]float64
	nt    bool
}

func (l *c15Probe) check(g *hermes.GlobalVarsMain, zeit int) {
	N := g.N
	l.c.Transition(1)
	h := mc.NewHasher().Fs(g.W[:N]).Fs(g.WMIN[:N]).Fs(g.PORGES[:N]).F(g.WRED).F(g.GRW)
	l.c.State(h.Sum())
	l.c.Eval(N + 2)
	for i := 0; i < N; i++ {
		w, wm, p := g.W[i], g.WMIN[i], g.PORGES[i]
		switch {
		case !(finite(w) && finite(wm) && finite(p)):
			l.c.Violate("nonfinite"+l.cls, fmt.Sprintf("%s day %d layer %d: W=%v WMIN=%v PORGES=%v", l.label, zeit, i+1, w, wm, p), nil)
		case !(wm > 0):
			l.c.Violate("wilting-point<=0"+l.cls, fmt.Sprintf("%s day %d layer %d: wilting point %.6g", l.label, zeit, i+1, wm), nil)
		case !(wm < w):
			l.c.Violate("wilting-point>=field-capacity"+l.cls, fmt.Sprintf("%s day %d layer %d: wilting point %.6g, field capacity %.6g", l.label, zeit, i+1, wm, w), nil)
		case !(w <= p+1e-12):
			l.c.Violate("field-capacity>pore-volume"+l.cls, fmt.Sprintf("%s day %d layer %d: field capacity %.6g, pore volume %.6g", l.label, zeit, i+1, w, p), nil)
		case !(p < 1):
			l.c.Violate("pore-volume>=1"+l.cls, fmt.Sprintf("%s day %d layer %d: pore volume %.6g", l.label, zeit, i+1, p), nil)
		}
		// layers entirely below the groundwater table are saturated: field capacity = pore volume
		if float64(i) >= g.GRW {
			l.nt = true
			if w != p {
				l.c.Violate("not-saturated-below-groundwater"+l.cls, fmt.Sprintf("%s day %d layer %d (groundwater at %.4g dm): field capacity %.6g differs from pore volume %.6g", l.label, zeit, i+1, g.GRW, w, p), nil)
			}
		}
	}
	if !(g.WMIN[0] < g.WRED && g.WRED < g.W[0]) {
		l.c.Violate("reduction-threshold-outside(WP,FC)"+l.cls, fmt.Sprintf("%s day %d: mineralisation-reduction threshold %.6g not strictly between wilting point %.6g and field capacity %.6g of the top layer", l.label, zeit, g.WRED, g.WMIN[0], g.W[0]), nil)
	}
	// same level => same parameters
	if l.seen != nil {
		if l.haveLvl && g.GRW != l.lastLvl {
			l.changed = true
		}
		l.lastLvl, l.haveLvl = g.GRW, true
		k := math.Float64bits(g.GRW)
		cur := c15Params{g.W, g.WMIN, g.PORGES, g.WNOR}
		if old, ok := l.seen[k]; ok {
			l.nt = true
			if old.p != cur {
				// classify: the only known deviation is the extra layer round(level) that the input routine
				// saturates before the first day (the daily routine saturates from floor(level+1) on)
				known := old.firstSegment
				first := -1
				for i := 0; i < N; i++ {
					if old.p.w[i] != cur.w[i] || old.p.wmin[i] != cur.wmin[i] || old.p.por[i] != cur.por[i] || old.p.wnor[i] != cur.wnor[i] {
						if first < 0 {
							first = i
						}
						extra := i+1 == int(math.Round(math.Max(g.GRW, 1))) && math.Abs(old.p.w[i]-old.p.por[i]) <= 1e-12 && old.p.wmin[i] == cur.wmin[i] && old.p.por[i] == cur.por[i] && old.p.wnor[i] == cur.wnor[i]
						if !extra {
							known = false
							if os.Getenv("C15_DEBUG") != "" {
								fmt.Printf("DEBUG layer %d grw=%v old w=%v por=%v wmin=%v wnor=%v cur w=%v por=%v wmin=%v wnor=%v firstSeg=%v\n", i+1, g.GRW, old.p.w[i], old.p.por[i], old.p.wmin[i], old.p.wnor[i], cur.w[i], cur.por[i], cur.wmin[i], cur.wnor[i], old.firstSegment)
							}
						}
					}
				}
				cls := "same-level-different-parameters other"
				if known {
					cls = "same-level-different-parameters first-day-extra-saturated-layer"
				}
				i := first
				l.c.Violate(cls+l.cls, fmt.Sprintf("%s day %d: groundwater back at %.4g dm but layer %d has W=%.6g WMIN=%.6g PORGES=%.6g, had W=%.6g WMIN=%.6g PORGES=%.6g at that level before",
					l.label, zeit, g.GRW, i+1, cur.w[i], cur.wmin[i], cur.por[i], old.p.w[i], old.p.wmin[i], old.p.por[i]), nil)
			}
		} else {
			l.seen[k] = c15Seen{cur, !l.changed}
		}
	}
	if l.nt {
		l.c.NonTrivial(h.I(zeit).Sum())
	}
}

func (l *c15Probe) probe() *hermes.VerifProbe {
	return &hermes.VerifProbe{AfterEvatra: func(g *hermes.GlobalVarsMain, zeit int, w *hermes.WaterSharedVars) { l.check(g, zeit) }}
}

func c15RunCase(c *mc.Ctx, sp c15Spec, cs c15Case, cls, label string) {
	root := scratchRoot()
	defer os.RemoveAll(root)
	n := cs.Hor[len(cs.Hor)-1].Lower
	_ = n
	nw := 2
	if len(cs.LWord) > 0 {
		nw = len(cs.LWord)
	}
	b := e1Base{Soil: "custom", Hor: cs.Hor, GW: cs.GW, InitW: 0.6, InitN: 10, ET: 3}
	p := e1Project(b, 2+nw)
	p.Config["PTF"] = fmt.Sprint(cs.PTF)
	h0 := p.Rotation[0].Harvest
	l := &c15Probe{c: c, label: label, cls: cls, nt: cls != " table" || cs.Hor[0].Stone > 0}
	if len(cs.LWord) > 0 {
		p.Config["GroundWaterFrom"] = "gwTimeSeries"
		p.GWSeries = []proj.GWPoint{{Date: isoAdd(h0, -3), Level: cs.LWord[0]}}
		for i, lv := range cs.LWord {
			p.GWSeries = append(p.GWSeries, proj.GWPoint{Date: isoAdd(h0, 2+i), Level: lv})
		}
		l.seen = map[uint64]c15Seen{}
	}
	if sp.Kind == "sinus" {
		p.Config["GroundWaterFrom"] = "polygonfile"
		p.Config["GroundWaterPhase"] = fmt.Sprint(sp.Phase)
		p.GWHi, p.GWLo = sp.GH, sp.GL
		nw = 400
		p = func() *proj.Project { q := e1Project(b, 2+nw); q.Config = p.Config; q.GWHi, q.GWLo = sp.GH, sp.GL; return q }()
		p.Config["EndDate"] = proj.DateStr("DateDElong", proj.D(h0).AddDate(0, 0, 1+nw))
		l.seen = map[uint64]c15Seen{}
	}
	word := make([]string, nw)
	for i := range word {
		word[i] = "mild"
	}
	p.Weather = e1Weather(0, word, false)
	p.Write(root)
	nv := len(c.Viol)
	res := proj.Run(root, p.Args(root), l.probe())
	c.Trace(1)
	switch {
	case res.Panic != "":
		c.Outcome("panic")
		c.Violate("run-panic"+cls, fmt.Sprintf("run panicked on valid input (%s): %s", label, res.Panic), nil)
	case !res.Success:
		c.Outcome("run-error")
		c.Violate("run-error"+cls, fmt.Sprintf("run failed on valid input (%s): %s", label, res.Err), nil)
	default:
		c.Outcome("ok" + cls)
	}
	if len(c.Viol) > nv && sp.One == nil {
		one := sp
		cs.Cls, cs.Label = cls, label
		one.One = &cs
		bb, _ := json.Marshal(one)
		for i := nv; i < len(c.Viol); i++ {
			c.Viol[i].Spec = bb
		}
	}
}

func c15RouteSoil(soil, route string) ([]proj.Horizon, int) {
	hor := append([]proj.Horizon{}, soilCat[soil]...)
	ptf := 0
	for i := range hor {
		switch route {
		case "explicit":
			hor[i].FC, hor[i].WP, hor[i].PS = 30-2*i, 12+i, 44
		case "ptf":
			hor[i].Sand, hor[i].Silt, hor[i].Clay, hor[i].PS = 40-5*i, 35, 25+5*i, 55
			ptf = 2
		case "mixed-et": // explicit values in the top horizon (far from the table's), table values below
			if i == 0 {
				hor[i].FC, hor[i].WP, hor[i].PS = 18, 7, 40
			}
		case "mixed-te": // table values in the top horizon, explicit values in the last one
			if i == len(hor)-1 && i > 0 {
				hor[i].FC, hor[i].WP, hor[i].PS = 26, 15, 41
			}
		}
	}
	return hor, ptf
}

func c15Run(raw json.RawMessage, c *mc.Ctx) {
	sp := mc.Decode[c15Spec](raw)
	if sp.One != nil {
		c15RunCase(c, sp, *sp.One, sp.One.Cls, sp.One.Label)
		return
	}
	switch sp.Kind {
	case "table":
		for bd := 1; bd <= 5; bd++ {
			for _, corg := range sp.Corgs {
				for _, stone := range []int{0, 10, 50, 90} {
					hor := []proj.Horizon{{Tex: sp.Tex, Lower: 3, BD: bd, Stone: stone, Corg: corg, CN: 10}, {Tex: sp.Tex, Lower: 6, BD: bd, Stone: stone, Corg: corg / 2, CN: 10}}
					cls := " table"
					if stone > 0 {
						cls = " table stones"
					}
					c15RunCase(c, sp, c15Case{Hor: hor, GW: 99}, cls, fmt.Sprintf("texture %s density class %d Corg %g stones %d%%", sp.Tex, bd, corg, stone))
					// ... and under a table that enters the profile and leaves it again (the parameters are recomputed on every change)
					c15RunCase(c, sp, c15Case{Hor: hor, GW: 99, LWord: []float64{25, 4, 2.5, 25, 4}}, cls+" moving-table", fmt.Sprintf("texture %s density class %d Corg %g stones %d%% levels [25 4 2.5 25 4]", sp.Tex, bd, corg, stone))
				}
			}
		}
	case "explicit":
		for fc := sp.WP + 5; fc <= 90; fc += 5 {
			for ps := fc; ps <= 95; ps += 5 {
				for _, tex := range []string{"SL3", "LT3"} {
					hor := []proj.Horizon{{Tex: tex, Lower: 4, BD: 3, Corg: 1, CN: 10, FC: fc, WP: sp.WP, PS: ps}}
					c15RunCase(c, sp, c15Case{Hor: hor, GW: 99}, " explicit", fmt.Sprintf("explicit WP=%d FC=%d PS=%d texture %s", sp.WP, fc, ps, tex))
					if tex == "SL3" {
						c15RunCase(c, sp, c15Case{Hor: hor, GW: 99, LWord: []float64{25, 2, 25, 2}}, " explicit moving-table", fmt.Sprintf("explicit WP=%d FC=%d PS=%d texture %s levels [25 2 25 2]", sp.WP, fc, ps, tex))
					}
				}
			}
		}
	case "ptf":
		for silt := 5; silt <= 95-sp.Sand; silt++ {
			clay := 100 - sp.Sand - silt
			if clay < 5 {
				continue
			}
			for _, corg := range sp.Corgs {
				tex := "SL3"
				if clay > 25 {
					tex = "LT3"
				}
				// (the pore volume of this route is the user's explicit value: it is chosen above every field capacity the
				// four functions yield on the grid - 70.05 % for 83 % clay with 6 % carbon - so that the input is consistent)
				hor := []proj.Horizon{{Tex: tex, Lower: 4, BD: 3, Corg: corg, CN: 10, PS: 78, Sand: sp.Sand, Silt: silt, Clay: clay}}
				c15RunCase(c, sp, c15Case{Hor: hor, PTF: sp.PTF, GW: 99}, fmt.Sprintf(" ptf%d", sp.PTF), fmt.Sprintf("PTF %d sand %d silt %d clay %d Corg %g", sp.PTF, sp.Sand, silt, clay, corg))
				if (silt+sp.Sand)%4 == 0 {
					c15RunCase(c, sp, c15Case{Hor: hor, PTF: sp.PTF, GW: 99, LWord: []float64{25, 2, 25, 2}}, fmt.Sprintf(" ptf%d moving-table", sp.PTF), fmt.Sprintf("PTF %d sand %d silt %d clay %d Corg %g levels [25 2 25 2]", sp.PTF, sp.Sand, silt, clay, corg))
				}
			}
		}
	case "gw":
		hor, ptf := c15RouteSoil(sp.Soil, sp.Route)
		var rec func(pre []float64)
		rec = func(pre []float64) {
			if len(pre) == sp.D {
				c15RunCase(c, sp, c15Case{Hor: hor, PTF: ptf, GW: 99, LWord: append([]float64{}, pre...)}, " gw-history "+sp.Route, fmt.Sprintf("soil %s route %s levels %v", sp.Soil, sp.Route, pre))
				return
			}
			for _, l := range sp.Levels {
				rec(append(pre, l))
			}
		}
		rec([]float64{sp.First})
	case "sinus":
		hor, ptf := c15RouteSoil(sp.Soil, sp.Route)
		c15RunCase(c, sp, c15Case{Hor: hor, PTF: ptf, GW: 99}, " gw-sinus "+sp.Route, fmt.Sprintf("soil %s GH=%d GL=%d phase=%d", sp.Soil, sp.GH, sp.GL, sp.Phase))
	}
	c.Sample(sp)
}
