package checks

import (
	"encoding/json"
	"fmt"
	"math"
	"os"
	"time"

	"github.com/zalf-rpm/Hermes2Go/hermes"
	"verif/mc"
	"verif/proj"
)

// C08 — ETa <= ETp <= cap, all >= 0; uptake only in rooted layers above groundwater and within available water; stress ratios in [0,1].

type c08Spec struct {
	Base  e1Base   `json:"base"`
	Lat   float64  `json:"lat"`
	Sun   bool     `json:"sun"` // weather has a sunshine-hours column (radiation may be 0)
	Alpha []string `json:"alpha,omitempty"`
	D     int      `json:"d,omitempty"`
	Word  []string `json:"word,omitempty"`
	Long  *lwSpec  `json:"long,omitempty"` // a long world (long.go) instead of words
	NFrom int `json:"n_from,omitempty"` // sub-step sweep: one run per forced sub-step count in [NFrom, NTo]
	NTo   int `json:"n_to,omitempty"`
	GWRise bool    `json:"gw_rise,omitempty"` // groundwater time series: deep during the warm-up, rising above the rooting depth during the word
}

var c08Alpha = []string{"dry-warm", "dry-hot-windy", "calm-dark", "no-sun-no-rad", "deep-frost", "rain", "frost"}

func c08Specs(tier string, seed int) []c08Spec {
	var out []c08Spec
	d := 2
	if tier == "thorough" {
		d = 3
	}
	i := 0
	for _, et := range []int{1, 2, 3, 4, 5} {
		for _, lat := range []float64{-70, 0, 35, 52, 69, 80} {
			for _, start := range []string{"2001-01-10", "2001-04-10", "2001-06-20", "2001-10-01"} {
				for _, iw := range []float64{0, 0.5, 1} {
					type cg struct {
						crop string
						warm int
						gw   int
					}
					for _, c := range []cg{{"", 0, 99}, {"SW", 30, 99}, {"SW", 60, 2}, {"SM", 60, 99}, {"SM", 45, 4}, {"SW", 50, 1}} {
						i++
						if tier == "quick" && c.crop != "" && (i+seed)%2 == 0 {
							continue // quick: every second crop scenario (rotating with the seed)
						}
						b := e1Base{Soil: "loam12", GW: c.gw, InitW: iw, InitN: 40, Crop: c.crop, WarmUp: c.warm, ET: et, Start: start}
						if i%3 == 0 {
							b.Soil = "sand20"
						}
						alpha := c08Alpha
						if et == 5 {
							// reference ET read from the weather file: missing, negative and very large readings
							alpha = append(append([]string{}, c08Alpha[:4]...), "et0-missing", "et0-negative", "et0-huge")
						}
						out = append(out, c08Spec{Base: b, Lat: lat, Sun: i%2 == 0, Alpha: alpha, D: d})
					}
				}
			}
		}
	}
	// what the sub-step loop applies over the whole day: every forced sub-step count (bare soil evaporating at the
	// potential rate and a transpiring crop)
	for _, b := range []e1Base{{Soil: "stony9", GW: 99, InitW: 1.0, ET: 3}, {Soil: "sand20", GW: 99, InitW: 1.0, ET: 2, Crop: "SW", WarmUp: 0, Start: "2001-05-20"}} {
		for from := 1; from <= 130; from += 10 {
			out = append(out, c08Spec{Base: b, Lat: 52, NFrom: from, NTo: min(from+9, 130)})
		}
	}
	// a standing crop whose roots are overtaken by a rising groundwater table (time series)
	for _, et := range []int{1, 2, 3, 4} {
		for _, cw := range []struct {
			crop string
			warm int
		}{{"SW", 45}, {"SM", 60}, {"WW", 70}} {
			for _, so := range []string{"loam12", "sand20"} {
				b := e1Base{Soil: so, GW: 99, InitW: 0.6, InitN: 40, Crop: cw.crop, WarmUp: cw.warm, ET: et, Start: "2001-04-10"}
				out = append(out, c08Spec{Base: b, Lat: 52, Sun: false, Alpha: []string{"dry-warm", "dry-hot-windy", "rain"}, D: d + 1, GWRise: true})
			}
		}
	}
	// air-dry profiles given as volumetric water content in the measured-values file (below one third of the wilting
	// point: a state the model does not reach by itself, but which the user-supplied file may impose)
	for _, et := range []int{1, 2, 3, 4, 5} {
		for _, vol := range []float64{0.004, 0.02, 0.05} {
			for _, c := range []struct {
				crop string
				warm int
			}{{"", 0}, {"SW", 30}} {
				for _, so := range []string{"loam12", "sand20"} {
					b := e1Base{Soil: so, GW: 99, InitVol: []float64{vol}, InitN: 40, Crop: c.crop, WarmUp: c.warm, ET: et, Start: "2001-06-20"}
					out = append(out, c08Spec{Base: b, Lat: 52, Sun: et%2 == 0, Alpha: c08Alpha, D: d})
				}
			}
		}
	}
	for _, lw := range lwSpecs(tier, seed, false) {
		lw := lw
		out = append(out, c08Spec{Long: &lw})
	}
	return out
}

func init() {
	mc.Register(&mc.Check{
		ID:        "C08",
		Technique: "explicit-state bounded exploration of the real day loop: all weather words up to depth D for every ET method x latitude x season x moisture x crop/rooting/groundwater state; ET and uptake invariants after the evapotranspiration routine of every day",
		Rule: "scenario = (ET method 1-5, latitude incl. polar, start season, initial moisture, bare/crop age/groundwater, with or without sunshine-hours column) with all words of Sigma^D; " +
			"state = (potential ET, actual evaporation, uptake profile, rooting depth, stress ratios); non-trivial = day with transpiration, a cap reached or missing radiation",
		Assumptions: []string{"ET method 5 reads ET0 from one-file-per-year weather files", "slack 1e-12"},
		Bound: func(t string) string {
			if t == "quick" {
				return "D=2 over 7 symbols; 5 ET methods x 6 latitudes x 4 seasons x 3 moisture levels x bare + half of 5 crop states (incl. a waterlogged topsoil)"
			}
			return "D=3 over 7 symbols; 5 ET methods x 6 latitudes x 4 seasons x 3 moisture levels x 6 cover states (incl. a waterlogged topsoil)"
		},
		Budget: func(t string) time.Duration {
			if t == "quick" {
				return 150 * time.Second
			}
			return 45 * time.Minute
		},
		Scenarios: func(tier string, seed int) []json.RawMessage { return mc.Specs(c08Specs(tier, seed)) },
		Run:       c08Run,
	})
}

type c08Probe struct {
	c        *mc.Ctx
	label    string
	verd0    float64
	wgStart  [21]float64
	nontriv  bool
	et       int
	sumWdt, etp, eta, tpSum float64 // the day's potential ET, evaporation and uptake as computed, and the summed length of the executed sub-steps
	tp [21]float64
}

func (l *c08Probe) probe() *hermes.VerifProbe {
	return &hermes.VerifProbe{
		DayStart: func(g *hermes.GlobalVarsMain, zeit int) { l.verd0 = g.VERDUNST; l.sumWdt = 0 },
		AfterEvatra: func(g *hermes.GlobalVarsMain, zeit int, w *hermes.WaterSharedVars) {
			N := g.N
			etp := g.VERDUNST - l.verd0 // potential ET of the day (cm)
			crop := g.WURZ > 0
			capv := 0.6
			if crop {
				capv = 0.65
			}
			tp := 0.0
			for i := 0; i < N; i++ {
				tp += g.TP[i]
				l.wgStart[i] = g.WG[0][i]
			}
			l.c.Eval(6)
			l.etp, l.eta, l.tpSum = etp, g.ETA, tp
			copy(l.tp[:], g.TP[:N])
			cls := fmt.Sprintf(" ETmethod=%d", l.et)
			if !finite(etp) || etp < -1e-12 {
				l.c.Violate("negative potential ET"+cls, fmt.Sprintf("%s day %d: potential ET %.6g cm (T=%.1f)", l.label, zeit, etp, g.TEMP[g.TAG.Index]), nil)
			}
			if etp > capv+1e-12 {
				l.c.Violate("potential ET above cap"+cls, fmt.Sprintf("%s day %d: potential ET %.6g cm exceeds the cap %.2f (crop=%v)", l.label, zeit, etp, capv, crop), nil)
			}
			if !finite(g.ETA) || g.ETA < -1e-12 {
				l.c.Violate("negative actual evaporation"+cls, fmt.Sprintf("%s day %d: actual evaporation %.6g cm (potential ET %.6g, T=%.1f)", l.label, zeit, g.ETA, etp, g.TEMP[g.TAG.Index]), nil)
			}
			if g.ETA+tp > etp+1e-12 && etp >= 0 {
				l.c.Violate("actual ET above potential"+cls, fmt.Sprintf("%s day %d: evaporation %.6g + transpiration %.6g exceeds potential ET %.6g", l.label, zeit, g.ETA, tp, etp), nil)
			}
			lim := math.Min(float64(g.WURZ), g.GRW)
			for i := 0; i < N; i++ {
				if !finite(g.TP[i]) || g.TP[i] < 0 {
					l.c.Violate("negative uptake", fmt.Sprintf("%s day %d layer %d: uptake %v", l.label, zeit, i+1, g.TP[i]), nil)
				}
				if float64(i+1) > lim && g.TP[i] != 0 {
					l.c.Violate("uptake outside root zone or below groundwater", fmt.Sprintf("%s day %d layer %d: uptake %.6g with rooting depth %d and groundwater at %.3g", l.label, zeit, i+1, g.TP[i], g.WURZ, g.GRW), nil)
				}
			}
			for name, v := range map[string]float64{"TRREL": g.TRREL, "ETREL": g.ETREL, "LURED": g.LURED} {
				if !finite(v) || v < -1e-12 || v > 1+1e-12 {
					l.c.Violate("stress ratio outside [0,1] "+name, fmt.Sprintf("%s day %d: %s = %.10g", l.label, zeit, name, v), nil)
				}
			}
			if tp > 0 {
				l.c.Count("days_with_transpiration", 1)
			}
			if crop && g.LUMDAY >= 4 {
				l.c.Count("days_after_four_days_of_air_shortage", 1)
			}
			if etp >= capv-1e-9 {
				l.c.Count("days_at_ETp_cap", 1)
			}
			if g.RAD[g.TAG.Index] == 0 {
				l.c.Count("days_without_radiation", 1)
			}
			if tp > 0 && g.GRW <= float64(g.WURZ) {
				l.c.Count("days_roots_reach_groundwater", 1)
			}
			l.nontriv = tp > 0 || etp >= capv-1e-9 || g.RAD[g.TAG.Index] == 0
			h := mc.NewHasher().F(etp).F(g.ETA).Fs(g.TP[:N]).I(g.WURZ).F(g.TRREL).F(g.ETREL).F(g.GRW)
			l.c.State(h.Sum())
			if l.nontriv {
				l.c.NonTrivial(h.Sum())
			}
		},
		BeforeNitro: func(g *hermes.GlobalVarsMain, zeit, subd int) {
			// the season totals that the harvest writes into the crop record: transpiration <= actual ET <= potential ET
			if subd == 1 && g.AKF.Index > 0 && zeit == g.ERNTE[g.AKF.Index] && g.SAAT[g.AKF.Index] > 0 {
				l.c.Eval(2)
				l.c.Count("harvests_with_season_totals", 1)
				if !(g.TRAG <= g.ETAG+1e-9) || !(g.ETAG <= g.ETC0+1e-9) || !finite(g.ETAG) || !finite(g.ETC0) {
					l.c.Violate("season totals of the crop record out of order", fmt.Sprintf("%s day %d (harvest of crop %d): transpiration %.6g, actual ET %.6g, potential ET %.6g cm since sowing", l.label, zeit, g.AKF.Index, g.TRAG, g.ETAG, g.ETC0), nil)
				}
			}
		},
		SubStep: func(g *hermes.GlobalVarsMain, zeit, subd int, steps, wdt float64, w *hermes.WaterSharedVars, n *hermes.NitroSharedVars) {
			l.sumWdt += wdt
			if subd != 1 {
				return
			}
			// the uptake actually withdrawn during the day never exceeds the plant-available water of the layer
			for i := 0; i < g.N; i++ {
				avail := (l.wgStart[i] - g.WMIN[i]) * g.DZ.Num
				if avail < 0 {
					avail = 0
				}
				if g.TP[i] > avail+1e-12 {
					l.c.Violate("uptake above available water", fmt.Sprintf("%s day %d layer %d: uptake %.6g cm, plant-available %.6g cm", l.label, zeit, i+1, g.TP[i], avail), nil)
				}
			}
		},
		DayEnd: func(g *hermes.GlobalVarsMain, zeit int, steps, wdt float64, cs *hermes.CropSharedVars, w *hermes.WaterSharedVars) {
			l.c.Transition(1)
			// the rates of the day are applied once per executed sub-step, weighted with its length: what the soil actually
			// loses to evaporation and roots over the day is rate x summed sub-step length
			if applied := (l.eta + l.tpSum) * l.sumWdt; finite(l.etp) && l.etp >= 0 && applied > l.etp+1e-12 && l.eta+l.tpSum <= l.etp+1e-12 {
				l.c.Violate("ET applied over the day's sub-steps above potential", fmt.Sprintf("%s day %d: %g sub-steps of %.17g d were executed (%.17g d in total): evaporation + transpiration applied %.10g cm exceeds potential ET %.10g cm", l.label, zeit, steps, wdt, l.sumWdt, applied, l.etp), nil)
			}
			for i := 0; i < g.N; i++ {
				avail := math.Max(0, (l.wgStart[i]-g.WMIN[i])*g.DZ.Num)
				if l.tp[i] <= avail+1e-12 && l.tp[i]*l.sumWdt > avail+1e-12 {
					l.c.Violate("uptake applied over the day's sub-steps above available water", fmt.Sprintf("%s day %d layer %d: uptake %.10g cm/d over %.17g d of sub-steps, plant-available %.10g cm", l.label, zeit, i+1, l.tp[i], l.sumWdt, avail), nil)
				}
			}
			if steps > 1 {
				l.c.Count("days_with_several_substeps", 1)
			}
		},
	}
}

func c08Run(raw json.RawMessage, c *mc.Ctx) {
	sp := mc.Decode[c08Spec](raw)
	root := scratchRoot()
	defer os.RemoveAll(root)
	if sp.Long != nil {
		lwRun(c, *sp.Long, root, nil, func(w *lwInfo) *hermes.VerifProbe {
			return (&c08Probe{c: c, label: "long world " + w.Name, et: lwDefs()[sp.Long.World].et}).probe()
		})
		return
	}
	if sp.NTo > 0 {
		substepSweep(sp.Base, sp.NFrom, sp.NTo, c, root, func(n int, rainMM float64, p *proj.Project, start int) {
			l := &c08Probe{c: c, label: fmt.Sprintf("sub-step sweep n=%d rain=%gmm", n, rainMM), et: sp.Base.ET}
			nv := len(c.Viol)
			res := proj.Run(root, p.Args(root), l.probe())
			c.Trace(1)
			if res.Panic != "" || !res.Success {
				c.Outcome("run-error")
				c.Violate("run-error", fmt.Sprintf("run failed on valid input (sub-step sweep n=%d): %s %s", n, res.Err, res.Panic), nil)
			} else {
				c.Outcome("ok sweep")
			}
			if len(c.Viol) > nv && sp.NFrom != sp.NTo {
				one := sp
				one.NFrom, one.NTo = n, n
				b, _ := json.Marshal(one)
				for i := nv; i < len(c.Viol); i++ {
					c.Viol[i].Spec = b
				}
			}
		})
		c.Sample(map[string]interface{}{"sweep": sp.Base, "n_from": sp.NFrom, "n_to": sp.NTo})
		return
	}
	ws := words(sp.Alpha, sp.D)
	if sp.Word != nil {
		ws = [][]string{sp.Word}
	}
	warm := sp.Base.WarmUp
	ndays := 2 + warm + len(ws[0])
	p := e1Project(sp.Base, ndays)
	p.Config["Latitude"] = fmt.Sprint(sp.Lat)
	p.SunColumn = sp.Sun
	if sp.Base.ET == 5 {
		p.Layout = 1
	}
	if sp.GWRise {
		// table at 20 dm until the last warm-up day, then 3 dm from the first word day on (it stays there)
		h0 := p.Rotation[0].Harvest
		p.Config["GroundWaterFrom"] = "gwTimeSeries"
		p.GWSeries = []proj.GWPoint{{Date: isoAdd(h0, -5), Level: 20}, {Date: isoAdd(h0, 1+warm), Level: 20}, {Date: isoAdd(h0, 2+warm), Level: 3}, {Date: isoAdd(h0, 10+warm), Level: 3}}
	}
	p.Weather = e1Weather(warm, ws[0], p.VerdColumn)
	p.Write(root)
	for _, w := range ws {
		p.Weather = e1Weather(warm, w, p.VerdColumn)
		writeWeather(root, p)
		l := &c08Probe{c: c, label: fmt.Sprintf("word=%v", w), et: sp.Base.ET}
		nv := len(c.Viol)
		res := proj.Run(root, p.Args(root), l.probe())
		c.Trace(1)
		switch {
		case res.Panic != "":
			c.Outcome("panic")
			c.Violate("run-panic", fmt.Sprintf("run panicked on valid input (word=%v): %s", w, res.Panic), nil)
		case !res.Success:
			c.Outcome("run-error")
			c.Violate("run-error", fmt.Sprintf("run failed on valid input (word=%v): %s", w, res.Err), nil)
		default:
			c.Outcome("ok")
		}
		if len(c.Viol) > nv && sp.Word == nil {
			one := sp
			one.Word, one.Alpha, one.D = w, nil, 0
			b, _ := json.Marshal(one)
			for i := nv; i < len(c.Viol); i++ {
				c.Viol[i].Spec = b
			}
		}
	}
	c.Sample(map[string]interface{}{"initial_state": sp.Base, "latitude": sp.Lat, "sunshine_column": sp.Sun, "words": len(ws), "last_word": ws[len(ws)-1]})
}
