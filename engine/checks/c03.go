package checks

import (
	"encoding/json"
	"fmt"
	"os"
	"os/exec"
	"path/filepath"
	"sort"
	"strings"
	"time"

	"verif/mc"
	"verif/proj"
)

// C03 — results are deterministic and independent of scheduling: every interleaving of the real dispatcher and the
// real runs (E3), every order of lines in a shared session (cache states), plus an auxiliary free-running race pass.

type c03Spec struct {
	Kind  string   `json:"kind"` // e3 | seq | race
	Batch []string `json:"batch,omitempty"`
	Conc  int      `json:"conc,omitempty"`
	Bound int      `json:"bound"`
	Days  int      `json:"days,omitempty"`
	Sched []int    `json:"sched,omitempty"` // replay: one schedule
	Shard, Shards int // heavy explorations are split over worker processes by first-level subtrees
}

func c03Specs(tier string, seed int) []c03Spec {
	var out []c03Spec
	// E3: 3-line batches (shared project files / shared parameter folder / repeated line under another output id), concurrency 2 and 3
	batches := [][]string{{"A", "B", "C"}, {"A", "A2", "B"}, {"C", "A", "B"}, {"A", "A", "C"}}
	bound := 1
	if tier == "thorough" {
		bound = 3
		batches = append(batches, []string{"B", "C", "A2"}, []string{"C", "B", "A"}, []string{"A2", "A", "C"}, []string{"B", "B", "A"}, []string{"C", "C", "A"}, []string{"B", "A", "A2"}, []string{"A", "C", "B"}, []string{"A2", "B", "C"})
	}
	for i, b := range batches {
		for _, conc := range []int{2, 3} {
			bd := bound
			if tier == "quick" && conc == 2 && (i+seed)%4 == 0 {
				bd = 2 // quick: one of the batches (rotating with the seed) one bound deeper at concurrency 2
			}
			out = append(out, c03Spec{Kind: "e3", Batch: b, Conc: conc, Bound: bd, Days: 3})
		}
	}
	// 2-line batches: unbounded number of preemptions
	for _, b := range [][]string{{"A", "B"}, {"A", "C"}, {"A", "A2"}, {"B", "A"}, {"C", "A"}} {
		out = append(out, c03Spec{Kind: "e3", Batch: b, Conc: 2, Bound: -1, Days: 2})
	}
	// 4 lines, 2 and 3 workers, bound 1 (0 in quick)
	b4 := 0
	if tier == "thorough" {
		b4 = 2
		out = append(out, c03Spec{Kind: "e3", Batch: []string{"A", "B", "C", "A2", "B"}, Conc: 4, Bound: 1, Days: 2}, c03Spec{Kind: "e3", Batch: []string{"A", "B", "C"}, Conc: 2, Bound: -1, Days: 1})
	}
	out = append(out, c03Spec{Kind: "e3", Batch: []string{"A", "B", "C", "A2"}, Conc: 2, Bound: b4, Days: 2}, c03Spec{Kind: "e3", Batch: []string{"C", "A2", "B", "A"}, Conc: 3, Bound: b4, Days: 2})
	// sequential orders in one session: every sequence of 2 and 3 lines over {A, B, C, A2}
	names := []string{"A", "B", "C", "A2"}
	for _, x := range names {
		for _, y := range names {
			out = append(out, c03Spec{Kind: "seq", Batch: []string{x, y}})
			for _, z := range names {
				out = append(out, c03Spec{Kind: "seq", Batch: []string{x, y, z}})
			}
		}
	}
	// lines carrying overrides followed by lines without them (and the other way round) in one session
	for _, b := range [][]string{{"A", "Ag"}, {"Ag", "A"}, {"Ag", "A2", "A"}, {"Ao", "A"}, {"Ao", "A2", "B"}, {"A", "Ao", "A2"}, {"Bo", "B", "A"}, {"Ao", "Bo", "A"}, {"Bo", "Ao", "B"}, {"A", "B", "Ao"}, {"As", "A"}, {"A", "As", "Ag"}, {"Ag", "As", "As"}} {
		out = append(out, c03Spec{Kind: "seq", Batch: b})
	}
	// every ordered pair of feature lines: scheduled / automatic irrigation, precipitation correction, another
	// missing-value code, groundwater sources, the other project (soil table with other column order)
	feat := []string{"A", "C", "Ca", "Cal", "Ap", "An", "As", "Ag"}
	for _, x := range feat {
		for _, y := range feat {
			if x != y && !(x == "A" && y == "C") && !(x == "C" && y == "A") {
				out = append(out, c03Spec{Kind: "seq", Batch: []string{x, y}})
			}
		}
	}
	out = append(out, c03Spec{Kind: "seq", Batch: []string{"C", "C", "Ca"}}, c03Spec{Kind: "seq", Batch: []string{"Ap", "A", "Ap"}}, c03Spec{Kind: "seq", Batch: []string{"C", "Ca", "C"}},
		c03Spec{Kind: "seq", Batch: []string{"Cw", "Cw2"}}, c03Spec{Kind: "seq", Batch: []string{"Cw", "C", "Cw2"}}, c03Spec{Kind: "seq", Batch: []string{"Cw", "Cw2", "Cw"}},
		c03Spec{Kind: "seq", Batch: []string{"C", "Cu"}}, c03Spec{Kind: "seq", Batch: []string{"Cu", "C"}}, c03Spec{Kind: "seq", Batch: []string{"Cu", "A", "C"}})
	// a successful run that writes to the log channel while the other slots are busy
	out = append(out, c03Spec{Kind: "e3", Batch: []string{"Cv", "A", "B"}, Conc: 2, Bound: bound, Days: 2}, c03Spec{Kind: "e3", Batch: []string{"A", "Cv", "B", "C"}, Conc: 2, Bound: b4, Days: 2},
		c03Spec{Kind: "seq", Batch: []string{"Cv", "A", "Cv"}},
		// a project with a partial management-event configuration before and after projects with the full one
		c03Spec{Kind: "seq", Batch: []string{"Cm", "C", "Cm"}}, c03Spec{Kind: "seq", Batch: []string{"A", "Cm"}})
	if tier == "thorough" { // (the reader reports every repaired day through the log channel: many scheduling points)
		out = append(out, c03Spec{Kind: "e3", Batch: []string{"Cw", "Cw2"}, Conc: 2, Bound: 1, Days: 1}, c03Spec{Kind: "e3", Batch: []string{"Cw", "C", "Cw2"}, Conc: 2, Bound: 1, Days: 1})
	}
	out = append(out, c03Spec{Kind: "e3", Batch: []string{"Ao", "A2", "Bo"}, Conc: 2, Bound: bound, Days: 3}, c03Spec{Kind: "e3", Batch: []string{"Bo", "A"}, Conc: 2, Bound: -1, Days: 2}, c03Spec{Kind: "e3", Batch: []string{"Ag", "A"}, Conc: 2, Bound: -1, Days: 2}, c03Spec{Kind: "e3", Batch: []string{"As", "A"}, Conc: 2, Bound: -1, Days: 2})
	out = append(out, c03Spec{Kind: "race", Conc: 4}, c03Spec{Kind: "race", Conc: 8})
	// ... and the real program (dispatcher included) built with the race detector on a batch file
	out = append(out, c03Spec{Kind: "race-binary", Conc: 3}, c03Spec{Kind: "race-binary", Conc: 6})
	// a project without configuration file (the first run generates one on disk): both orders of two lines with different overrides
	out = append(out, c03Spec{Kind: "noconfig"}, c03Spec{Kind: "refolder"})
	// the same line again and again in fresh sessions (the runtime randomises map iteration per execution), with the
	// batch-line arguments in every order
	for _, n := range []string{"A", "B", "C", "As", "Pa"} {
		out = append(out, c03Spec{Kind: "repeat", Batch: []string{n}})
	}
	// split the heavy explorations (bound >= 2 with 3+ lines) into 8 shards each; heavy ones first so that they start early
	// order: the sequential families first (cheap; they must not starve when a change to the code under test makes the
	// explorations slower), then the heavy explorations, then the light ones
	var seqs, heavy, light []c03Spec
	for _, s := range out {
		switch {
		case s.Kind != "e3":
			seqs = append(seqs, s)
		case len(s.Batch) >= 3 && (s.Bound >= 2 || s.Bound < 0):
			for k := 0; k < 8; k++ {
				t := s
				t.Shard, t.Shards = k, 8
				heavy = append(heavy, t)
			}
		default:
			light = append(light, s)
		}
	}
	return append(append(seqs, heavy...), light...)
}

func init() {
	mc.Register(&mc.Check{
		ID:        "C03",
		Technique: "stateless model checking of the implementation: the real dispatcher and the real runs, with every goroutine start, channel send/receive/select and mutex operation (and a yield at every simulated-day boundary) routed to a controlled cooperative scheduler by a source rewriter, explored depth-first over all interleavings up to a preemption bound with state-key pruning; plus exhaustive line orders in one shared session; auxiliary free-running race-detector pass",
		Rule: "e3 scenario = (batch of 2-4 lines over plots sharing project files, a project sharing only the parameter folder, a repeated line under another output id, custom crop codes whose run-local numbers collide; concurrency 2-3): every execution must end without deadlock, with every line's daily/yearly/crop/management files byte-identical to that line run alone in a fresh session, an empty error summary and no foreign file; every recorded failing schedule is replayed twice and must reproduce identically; " +
			"seq scenario = every sequence of 2-3 lines run one after the other in one session (file-pool cache states) against the same references; repeat scenario = one line with 9 configuration and crop overrides run 30 times in fresh sessions with the arguments in different orders, all results identical; state = global state key (per-goroutine history hashes incl. received values, lock order and day-end data hashes, pending operations, lock owners); transitions = scheduling decisions",
		Assumptions: []string{"scheduling points: goroutine start, channel operations, select, mutex lock, sync.Map operations, simulated-day boundaries; unlock is not a separate point (critical sections without inner operations are atomic)",
			"state-key pruning assumes data-race freedom between scheduling points; data races inside one day step are outside a cooperative scheduler's reach and are covered only by the auxiliary race-detector pass (sampling, not deciding)",
			"the rewriter (engine/rewrite) and the scheduler (engine/vsched) are trusted; constructs they do not model are refused with a harness error"},
		Bound: func(t string) string {
			if t == "quick" {
				return "4 three-line batches (+ 2 with feature lines) x concurrency 2,3 at preemption bound 1 (one of them at bound 2; 3 simulated days); 5 two-line batches unbounded; 2 four-line batches at bound 0; all 80 line sequences of length 2-3 in one session; race pass with 4 and 8 concurrent runs"
			}
			return "12 three-line batches x concurrency 2,3 at preemption bound 3; 5 two-line batches unbounded; one three-line batch unbounded (1 simulated day); 2 four-line batches at bound 2; a five-line batch with 4 workers at bound 1; all 80 line sequences; race pass"
		},
		Budget: func(t string) time.Duration {
			if t == "quick" {
				return 170 * time.Second
			}
			return 120 * time.Minute
		},
		Prepare: func(tier string) {
			e3Prepare()
			racePrepare()
			os.Setenv("VERIF_RACE_HERMES2GO", mc.BuildRepoBinaryRace("hermes2go"))
		},
		Scenarios: func(tier string, seed int) []json.RawMessage { return mc.Specs(c03Specs(tier, seed)) },
		Run:       c03Run,
	})
}

const raceEnv = "VERIF_RACEBIN"

// racePrepare builds the free-running race-detector driver (un-rewritten library) once.
func racePrepare() {
	bin := mc.RepoBinary("racepass")
	modf := filepath.Join(mc.VerifDir(), "engine", "go.gen.race.mod")
	b, _ := os.ReadFile(filepath.Join(mc.VerifDir(), "engine", "go.mod"))
	os.WriteFile(modf, []byte(strings.Replace(string(b), "=> /repo/hermes", "=> "+proj.RepoDir()+"/hermes", 1)), 0o644)
	sum, _ := os.ReadFile(filepath.Join(mc.VerifDir(), "engine", "go.sum"))
	os.WriteFile(strings.TrimSuffix(modf, ".mod")+".sum", sum, 0o644)
	cmd := exec.Command("go", "build", "-race", "-modfile="+modf, "-o", bin, "./cmd/racepass")
	cmd.Dir = filepath.Join(mc.VerifDir(), "engine")
	cmd.Env = append(os.Environ(), "GOFLAGS=-mod=mod", "GOPROXY=off", "GOSUMDB=off", "GOTOOLCHAIN=local", "GOWORK=off", "CGO_ENABLED=1")
	if out, err := cmd.CombinedOutput(); err != nil {
		// the race detector needs cgo; without it the auxiliary pass is skipped (reported in the evidence)
		os.Setenv(raceEnv, "unavailable: "+tailStr(string(out), 200))
		return
	}
	os.Setenv(raceEnv, bin)
}

func c03Run(raw json.RawMessage, c *mc.Ctx) {
	sp := mc.Decode[c03Spec](raw)
	if os.Getenv("C03_TIMING") != "" {
		t0 := time.Now()
		defer func() {
			if f, err := os.OpenFile(os.Getenv("C03_TIMING"), os.O_APPEND|os.O_CREATE|os.O_WRONLY, 0o644); err == nil {
				fmt.Fprintf(f, "TIMING %6.1fs %s %v conc=%d bound=%d shard=%d/%d\n", time.Since(t0).Seconds(), sp.Kind, sp.Batch, sp.Conc, sp.Bound, sp.Shard, sp.Shards)
				f.Close()
			}
		}()
	}
	root := scratchRoot()
	defer os.RemoveAll(root)
	days := sp.Days
	if days == 0 {
		days = 3
	}
	switch sp.Kind {
	case "e3":
		w := buildBatchWorld(root, days)
		var lines []string
		for _, n := range sp.Batch {
			lines = append(lines, w.Lines[n])
		}
		sc := e3Scenario{WD: root, Lines: lines, Conc: sp.Conc, Bound: sp.Bound, DeadlineS: 140, Schedule: sp.Sched, Shard: sp.Shard, Shards: sp.Shards}
		if c.Tier == "thorough" {
			sc.DeadlineS = 3000
		}
		e3Judge(c, sc, raw, fmt.Sprintf("batch %v concurrency %d bound %d", sp.Batch, sp.Conc, sp.Bound), root, func(s []int) json.RawMessage {
			o := sp
			o.Sched = s
			b, _ := json.Marshal(o)
			return b
		})
	case "seq":
		w := buildBatchWorld(root, 40)
		// the sequence runs in one session of a fresh process (what the worker process executed before must not matter)
		var seqArgs [][]string
		for i, n := range sp.Batch {
			seqArgs = append(seqArgs, append(strings.Fields(w.Lines[n]), "resultfolder="+filepath.Join(root, "out", fmt.Sprintf("seq%d", i))))
		}
		gots, err := proj.RunSeqFresh(root, seqArgs)
		if err != nil || len(gots) != len(sp.Batch) {
			c.Violate("run-failed seq", fmt.Sprintf("sequence %v: the process running the sequence died: %v", sp.Batch, err), nil)
			return
		}
		for i, n := range sp.Batch {
			got := gots[i]
			// reference: the line as the only run of a fresh process (state kept at package level starts empty as well)
			ref := proj.RunFresh(root, append(strings.Fields(w.Lines[n]), "resultfolder="+filepath.Join(root, "out", "ref")))
			c.Trace(2)
			c.Transition(1)
			c.Eval(1)
			h := mc.NewHasher().S("seq").S(strings.Join(sp.Batch, ",")).I(i).Sum()
			c.State(h)
			if i > 0 {
				c.NonTrivial(h)
			}
			if !ref.Success || !got.Success {
				c.Violate("run-failed seq", fmt.Sprintf("sequence %v: line %s failed: alone %q, in the session %q", sp.Batch, n, ref.Err+ref.Panic, got.Err+got.Panic), nil)
				return
			}
			if a, b := c03AllFiles(ref), c03AllFiles(got); a != b {
				c.Violate("result-depends-on-earlier-runs-of-the-session", fmt.Sprintf("sequence %v: line %s (position %d) differs from the same line in a fresh session: %s", sp.Batch, n, i+1, strings.Replace(c18Diff(a, b, nil), "edited file gives", "fresh session gives", 1)), nil)
				return
			}
		}
		c.Outcome("seq-identical")
	case "noconfig":
		common := "project=p2 plotNr=1 fcode=W parameter=par SoilFileExtension=csv WeatherRootFolder=./weather WeatherFolder=w InitSelection=1 StartYear=2001 EndDate=08052001 AnnualOutputDate=0105 " +
			"AutoSowingHarvest=0 AutoFertilization=0 AutoIrrigation=0 AutoHarvest=0 OutputIntervall=1 ResultFileFormat=1 ManagementEvents=1 LeachingDepth=15"
		lines := map[string]string{"X": common + " poligonID=X Fertilization=50 NDeposition=60 KcFactorBareSoil=0.6", "Y": common + " poligonID=Y"}
		runOrder := func(order []string) map[string]string {
			wr := scratchRoot()
			defer os.RemoveAll(wr)
			buildBatchWorld(wr, 30)
			os.Remove(filepath.Join(wr, "project", "p2", "config.yml"))
			out := map[string]string{}
			for _, n := range order {
				dir := filepath.Join(wr, "out", n)
				r := proj.RunDisk(wr, append(strings.Fields(lines[n]), "resultfolder="+dir), dir)
				c.Trace(1)
				c.Transition(1)
				if !r.Success {
					out[n] = "FAILED: " + r.Err + r.Panic
				} else {
					out[n] = c03AllFiles(r)
				}
			}
			return out
		}
		alone := map[string]string{"X": runOrder([]string{"X"})["X"], "Y": runOrder([]string{"Y"})["Y"]}
		for n, t := range alone {
			if strings.HasPrefix(t, "FAILED") || len(t) < 200 {
				mc.HarnessError("C03 noconfig: line %s alone: %.300s", n, t)
			}
		}
		if alone["X"] == strings.ReplaceAll(alone["Y"], "Y1", "X1") {
			mc.HarnessError("C03 noconfig: the overrides of line X have no effect")
		}
		for _, order := range [][]string{{"X", "Y"}, {"Y", "X"}, {"X", "Y", "X"}, {"Y", "Y", "X"}} {
			got := runOrder(order)
			for _, n := range order {
				c.Eval(1)
				h := mc.NewHasher().S("noconfig").S(strings.Join(order, "")).S(n).Sum()
				c.State(h)
				c.NonTrivial(h)
				if got[n] != alone[n] {
					c.Violate("result-depends-on-which-line-generated-the-configuration-file", fmt.Sprintf("project without config.yml, lines run in order %v: line %s differs from the same line run first in a fresh project: %s", order, n, strings.Replace(c18Diff(alone[n], got[n], nil), "edited file gives", "alone gives", 1)), nil)
					return
				}
			}
		}
		c.Outcome("noconfig-identical")
	case "refolder":
		// the library's own file writer, one result folder used by several runs with the same ids: what a run leaves in
		// its files must not depend on what an earlier run (of this or an earlier session) had written under that name
		common := "project=p2 plotNr=1 fcode=W parameter=par SoilFileExtension=csv WeatherRootFolder=./weather WeatherFolder=w InitSelection=1 StartYear=2001 AnnualOutputDate=0105 " +
			"AutoSowingHarvest=0 AutoFertilization=0 AutoIrrigation=0 AutoHarvest=0 OutputIntervall=1 ResultFileFormat=1 ManagementEvents=1 LeachingDepth=15 poligonID=Y"
		lines := map[string]string{"long": common + " EndDate=30062001", "short": common + " EndDate=08052001", "weekly": common + " EndDate=30062001 OutputIntervall=7"}
		runOrder := func(order []string) map[string]string {
			wr := scratchRoot()
			defer os.RemoveAll(wr)
			buildBatchWorld(wr, 90)
			dir := filepath.Join(wr, "out", "shared")
			out := map[string]string{}
			for _, n := range order {
				r := proj.RunDisk(wr, append(strings.Fields(lines[n]), "resultfolder="+dir), dir)
				c.Trace(1)
				c.Transition(1)
				if !r.Success {
					out[n] = "FAILED: " + r.Err + r.Panic
				} else {
					out[n] = c03AllFiles(r)
				}
			}
			return out
		}
		alone := map[string]string{}
		for n := range lines {
			alone[n] = runOrder([]string{n})[n]
			if strings.HasPrefix(alone[n], "FAILED") || len(alone[n]) < 200 {
				mc.HarnessError("C03 refolder: line %s alone: %.300s", n, alone[n])
			}
		}
		for _, order := range [][]string{{"long", "short"}, {"short", "long"}, {"long", "weekly"}, {"weekly", "short"}, {"long", "short", "weekly"}, {"short", "short"}} {
			got := runOrder(order)
			last := order[len(order)-1]
			c.Eval(1)
			h := mc.NewHasher().S("refolder").S(strings.Join(order, ",")).Sum()
			c.State(h)
			c.NonTrivial(h)
			if got[last] != alone[last] {
				c.Violate("result-depends-on-earlier-content-of-the-result-folder", fmt.Sprintf("result folder used by the runs %v in turn (same ids): the files of the last run differ from the same line in a fresh folder: %s", order, strings.Replace(c18Diff(alone[last], got[last], nil), "edited file gives", "fresh folder gives", 1)), nil)
				return
			}
		}
		c.Outcome("refolder-identical")
	case "repeat":
		w := buildBatchWorld(root, 45)
		extra := []string{"c_MAXAMAX=44", "c_TSUM_1=160", "c_TSUM_2=300", "c_KC_3=1.1", "c_PRO_2_1=0.3", "c_PRO_2_2=0.7", "NDeposition=33", "Fertilization=80", "KcFactorBareSoil=0.5"}
		crop := map[string]string{"A": "PARAM.XWA", "As": "PARAM.XWA", "B": "PARAM.XWB", "C": "PARAM.SM", "Pa": "PARAM.AA"}[sp.Batch[0]]
		if sp.Batch[0] == "Pa" {
			// every base parameter at once (they are kept in a map and applied in its iteration order, again at every cut)
			extra = []string{"c_MAXAMAX=30", "c_INITCONCNBIOM=5.4", "c_MINTMP=3.6", "c_INITCONCNROOT=1.35", "c_WUMAXPF=9", "c_VELOC=0.5", "c_YIFAK=0.7", "c_TSUM_1=133", "NDeposition=33"}
		}
		base := strings.Fields(w.Lines[sp.Batch[0]])
		var first string
		n := 0
		permute(append([]string{"CropFile=" + crop}, extra[:4]...), func(perm []string) {
			if n >= 30 {
				return
			}
			n++
			args := append(append(append([]string{}, base...), perm...), extra[4:]...)
			if n%2 == 0 { // reversed tail as well
				for i, j := len(base), len(args)-1; i < j; i, j = i+1, j-1 {
					args[i], args[j] = args[j], args[i]
				}
			}
			r := proj.Run(root, append(args, "resultfolder="+filepath.Join(root, "out", "rep")), nil)
			c.Trace(1)
			c.Transition(1)
			c.Eval(1)
			h := mc.NewHasher().S("repeat").S(sp.Batch[0]).I(n).Sum()
			c.State(h)
			c.NonTrivial(h)
			if !r.Success {
				c.Violate("run-failed repeat", fmt.Sprintf("line %s with overrides %v failed: %s %s", sp.Batch[0], args[len(base):], r.Err, r.Panic), nil)
				return
			}
			txt := c03AllFiles(r)
			if first == "" {
				first = txt
			} else if txt != first {
				c.Violate("same-line-different-results", fmt.Sprintf("line %s: repetition %d (arguments %v) differs from the first run of the same line: %s", sp.Batch[0], n, args[len(base):], strings.Replace(c18Diff(first, txt, nil), "edited file gives", "first run gives", 1)), nil)
			}
		})
		c.Outcome("repeat-identical")
	case "race-binary":
		bin := os.Getenv("VERIF_RACE_HERMES2GO")
		if bin == "" {
			c.Outcome("race-pass-unavailable")
			c.Count("race_pass_unavailable", 1)
			return
		}
		w := buildBatchWorld(root, 40)
		var b strings.Builder
		for i, n := range []string{"A", "B", "Fsoil", "C", "A2", "Ag", "As", "Ca", "Cw", "Ftill", "Cu", "Ao", "Bo", "Ap", "A", "C"} {
			fmt.Fprintf(&b, "%s resultfolder=%s\n", w.Lines[n], filepath.Join(root, "out", fmt.Sprintf("rb%d", i)))
		}
		bf := filepath.Join(root, "race_batch.txt")
		os.WriteFile(bf, []byte(b.String()), 0o644)
		cmd := exec.Command(bin, "-module", "batch", "-batch", bf, "-workingdir", root, "-concurrent", fmt.Sprint(sp.Conc))
		cmd.Dir = root
		cmd.Env = append(os.Environ(), "GORACE=halt_on_error=0 exitcode=66")
		out, err := cmd.CombinedOutput()
		c.Trace(1)
		c.Transition(1)
		c.State(mc.NewHasher().S("race-binary").I(sp.Conc).Sum())
		if strings.Contains(string(out), "WARNING: DATA RACE") {
			i := strings.Index(string(out), "WARNING: DATA RACE")
			c.Violate("data-race", fmt.Sprintf("race detector report of the real program with -concurrent %d: %s", sp.Conc, tailStr(string(out)[i:min(len(out), i+1500)], 1500)), nil)
		} else if err != nil {
			c.Violate("race-pass-failed", fmt.Sprintf("the race-detector build of the real program failed on the batch: %v: %s", err, tailStr(string(out), 400)), nil)
		} else {
			c.Outcome("race-binary-clean")
		}
	case "race":
		bin := os.Getenv(raceEnv)
		if bin == "" || strings.HasPrefix(bin, "unavailable") {
			c.Outcome("race-pass-unavailable")
			c.Count("race_pass_unavailable", 1)
			return
		}
		w := buildBatchWorld(root, 60)
		args := []string{root, fmt.Sprint(sp.Conc)}
		for _, n := range []string{"A", "B", "C", "A2", "Ag", "As", "Ca", "Cw", "Cu", "Ao", "Bo", "Ap", "A", "C", "B", "Cw2"} {
			args = append(args, w.Lines[n]+" resultfolder="+filepath.Join(root, "out", "r"))
		}
		cmd := exec.Command(bin, args...)
		cmd.Env = append(os.Environ(), "GORACE=halt_on_error=0 exitcode=66")
		out, err := cmd.CombinedOutput()
		c.Trace(1)
		c.Transition(1)
		c.State(mc.NewHasher().S("race").I(sp.Conc).Sum())
		if strings.Contains(string(out), "WARNING: DATA RACE") {
			i := strings.Index(string(out), "WARNING: DATA RACE")
			c.Violate("data-race", fmt.Sprintf("race detector report with %d concurrent runs of one session: %s", sp.Conc, tailStr(string(out)[i:min(len(out), i+1500)], 1500)), nil)
		} else if err != nil {
			c.Violate("race-pass-failed", fmt.Sprintf("free-running batch failed: %v: %s", err, tailStr(string(out), 400)), nil)
		} else {
			c.Outcome("race-pass-clean")
		}
	}
	c.Sample(sp)
}

func c03AllFiles(r *proj.RunResult) string {
	var names []string
	for n := range r.Files {
		names = append(names, n)
	}
	sort.Strings(names)
	var b strings.Builder
	for _, n := range names {
		b.WriteString("== " + n + "\n" + r.Files[n])
	}
	return b.String()
}

// e3Judge explores one scenario and turns the report into violations; withSched builds the replay spec of a schedule.
func e3Judge(c *mc.Ctx, sc e3Scenario, raw json.RawMessage, label, dir string, withSched func([]int) json.RawMessage) {
	rep, err := e3Explore(sc, dir)
	if err != nil {
		c.Violate("driver-died", fmt.Sprintf("%s: %v", label, err), nil)
		return
	}
	if rep.RefProblem != "" {
		mc.HarnessError("C03/C11 %s: %s", label, rep.RefProblem)
	}
	c.Trace(rep.Executions)
	c.Transition(rep.Transitions)
	c.Count("executions", rep.Executions)
	c.Count("states_expanded", rep.States)
	c.Count("pruned_revisits", rep.Pruned)
	for k, v := range rep.Outcomes {
		c.Count("outcome_"+k, v)
	}
	h := mc.NewHasher().S(label).Sum()
	for i := 0; i < rep.States; i++ {
		c.State(h + uint64(i))
	}
	if rep.Executions > 1 {
		c.NonTrivial(h)
	}
	if !rep.Exhaustive {
		c.Count("budget_hit", 1)
		c.Outcome("cap: " + rep.CapHit)
	} else {
		c.Outcome(fmt.Sprintf("exhaustive bound=%d", sc.Bound))
	}
	if sc.Schedule != nil && rep.Replay != nil {
		if det, _ := rep.Replay["deterministic"].(bool); !det {
			mc.HarnessError("%s: replaying the schedule twice gave different observations", label)
		}
	}
	for _, f := range rep.Failures {
		c.Violate(f.Class, fmt.Sprintf("%s: %s (schedule of %d decisions)", label, f.What, len(f.Schedule)), map[string]interface{}{"schedule": f.Schedule})
		if sc.Schedule == nil {
			c.Viol[len(c.Viol)-1].Spec = withSched(f.Schedule)
		}
	}
}
