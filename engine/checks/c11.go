package checks

import (
	"bytes"
	"encoding/json"
	"fmt"
	"os"
	"os/exec"
	"path/filepath"
	"sort"
	"strings"
	"time"

	"verif/mc"
	"verif/proj"
)

// C11 — runs are isolated, always terminate, and failures are reported per run: batches that mix valid lines with a
// line failing in each reported-error class (real binary, every position and concurrency; all interleavings under the
// controlled scheduler), and termination of fertiliser prediction at every latitude.

type c11Spec struct {
	Kind  string   `json:"kind"` // e4 | e3 | lat
	Fail  string   `json:"fail,omitempty"`
	Pos   int      `json:"pos"`
	Conc  int      `json:"conc,omitempty"`
	Bound int      `json:"bound"`
	Batch []string `json:"batch,omitempty"`
	LatFrom, LatTo int
	Sched []int `json:"sched,omitempty"`
	Shard, Shards int
	Cls *c11ClsSpec `json:"cls,omitempty"`
}

var c11Classes = []string{"Fsoil", "Ffield", "Ftex", "Ftex2", "Fptf", "Fgap", "Ftill", "Fyear", "Fargs", "Flate", "Fgap0", "Fgapy"}

func c11Specs(tier string, seed int) []c11Spec {
	var out []c11Spec
	// E4: 4-line batches: three valid lines and one failing line at every position, concurrency 1..4; two failing lines
	for _, f := range c11Classes {
		for pos := 0; pos < 4; pos++ {
			for conc := 1; conc <= 4; conc++ {
				if tier == "quick" && (pos+2*conc+len(f)+seed)%3 != 0 {
					continue // quick: a third of the (position, concurrency) grid per class, rotating with the seed
				}
				out = append(out, c11Spec{Kind: "e4", Fail: f, Pos: pos, Conc: conc})
			}
		}
	}
	for conc := 1; conc <= 3; conc++ {
		out = append(out, c11Spec{Kind: "e4", Batch: []string{"Fsoil", "A", "Fyear", "B", "Ftill", "C"}, Conc: conc}, c11Spec{Kind: "e4", Batch: []string{"Fsoil", "Ffield", "Ftex"}, Conc: conc}, c11Spec{Kind: "e4", Batch: []string{"A", "Ag", "Fsoil", "B"}, Conc: conc})
	}
	// a valid line of a kind that must neither fail nor take the process down: partial management-event configuration
	for conc := 1; conc <= 3; conc++ {
		out = append(out, c11Spec{Kind: "e4", Batch: []string{"A", "Cm", "B"}, Conc: conc}, c11Spec{Kind: "e4", Batch: []string{"Cm", "Fsoil", "C"}, Conc: conc})
	}
	// E3: two valid lines and one failing line, every position, concurrency 1..3, all interleavings
	bound := 1
	if tier == "thorough" {
		bound = 3
	}
	e3classes := []string{"Fsoil", "Ftill", "Fargs"}
	if tier == "thorough" {
		e3classes = c11Classes
	}
	for _, f := range e3classes {
		for pos := 0; pos < 3; pos++ {
			for conc := 1; conc <= 3; conc++ {
				out = append(out, c11Spec{Kind: "e3", Fail: f, Pos: pos, Conc: conc, Bound: bound})
			}
		}
	}
	out = append(out, c11Spec{Kind: "e3", Batch: []string{"Fsoil", "A", "Fyear", "B"}, Conc: 2, Bound: bound - 1}, c11Spec{Kind: "e3", Batch: []string{"Fargs", "Fsoil", "A"}, Conc: 2, Bound: bound}, c11Spec{Kind: "e3", Batch: []string{"A", "Fsoil", "Ag"}, Conc: 1, Bound: bound}, c11Spec{Kind: "e3", Batch: []string{"Ag", "A", "Fsoil"}, Conc: 2, Bound: bound})
	if tier == "thorough" {
		var sharded []c11Spec
		for _, s := range out {
			if s.Kind == "e3" && s.Bound >= 2 {
				for k := 0; k < 4; k++ {
					t := s
					t.Shard, t.Shards = k, 4
					sharded = append(sharded, t)
				}
			} else {
				sharded = append(sharded, s)
			}
		}
		out = sharded
	}
	// reported-error classes as input spaces (in-process)
	for _, cs := range c11ClsSpecs() {
		cs := cs
		out = append(out, c11Spec{Kind: "cls", Cls: &cs})
	}
	// termination with fertiliser prediction at every latitude
	for lat := -90; lat <= 90; lat += 10 {
		out = append(out, c11Spec{Kind: "lat", LatFrom: lat, LatTo: min(lat+9, 90)})
	}
	return out
}

func init() {
	mc.Register(&mc.Check{
		ID:        "C11",
		Technique: "stateless model checking of the real dispatcher and runs under a controlled scheduler (all interleavings up to a preemption bound) for batches with a failing line, plus exhaustive enumeration over the real command-line program: failing-line class x position x concurrency, and fertiliser prediction at every integer latitude with a termination deadline",
		Rule: "e4 scenario = batch of three valid lines and one line failing in one of 12 error classes (unknown soil id, unknown field id, texture not in the tables with and without explicit capacity values, inconsistent texture fractions under a transfer function, weather gap inside a file , missing year file and a whole year absent from a multi-year file, tillage between sowing and harvest, start-year mismatch before and after the weather series, missing project argument) at every position, concurrency 1-4, run by the real hermes2go: the process must terminate with exit code 0, the error summary must list exactly the failing line ids, every valid line's result files must be byte-identical to that line run alone, the failing line must not disturb files of others; " +
			"e3 scenario = two valid lines and a failing line under the scheduler: every interleaving must satisfy the same oracle and never deadlock; cls scenario = the error classes as input spaces: every strictly ascending list of up to 3 tillage dates over 18 anchor dates around sowing and harvest of two crops (the run must report the error iff a date lies strictly between a sowing and its harvest, and succeed if every date lies outside [sowing, harvest]), start years -3..+3 around the first harvest year, texture sums 60..150 % x horizon x 4 transfer functions; lat scenario = fertiliser prediction switched on at every integer latitude -90..90 x 4 prediction dates: every run must end (success or run error) within 120 s (normal: < 0.1 s)",
		Assumptions: []string{"valid lines: two plots sharing all project files, one project sharing the parameter folder", "termination deadline 120 s per process (more than 1000 x the normal duration)", "scheduler assumptions as for C03"},
		Bound: func(t string) string {
			if t == "quick" {
				return "12 failing-line classes x 4 positions x 4 concurrency levels (a third of the grid) + 9 mixed batches on the real binary; 3 classes x 3 positions x 3 concurrency levels at preemption bound 1 under the scheduler; 181 latitudes x 4 dates; error classes: 987 tillage lists, 7 start years, 15 texture sums x 2 horizons x 4 functions"
			}
			return "12 classes x 4 positions x 4 concurrency levels + 9 mixed batches on the real binary; 12 classes x 3 positions x 3 concurrency levels at preemption bound 3 under the scheduler; 181 latitudes x 4 dates; error classes as for quick"
		},
		Budget: func(t string) time.Duration {
			if t == "quick" {
				return 170 * time.Second
			}
			return 120 * time.Minute
		},
		Prepare: func(tier string) {
			e3Prepare()
			mc.BuildRepoBinary("hermes2go")
		},
		Scenarios: func(tier string, seed int) []json.RawMessage { return mc.Specs(c11Specs(tier, seed)) },
		Run:       c11Run,
	})
}

// runBinary runs the real simulator with a deadline; timedOut reports non-termination.
func runBinary(dir string, deadline time.Duration, args ...string) (out string, exit int, timedOut bool) {
	if v := os.Getenv("VERIF_C11_DEADLINE_S"); v != "" { // (only for trying the check against a known non-terminating tree)
		var s int
		fmt.Sscan(v, &s)
		deadline = time.Duration(s) * time.Second
	}
	cmd := exec.Command(mc.RepoBinary("hermes2go"), args...)
	cmd.Dir = dir
	var b bytes.Buffer
	cmd.Stdout, cmd.Stderr = &b, &b
	if err := cmd.Start(); err != nil {
		return err.Error(), -1, false
	}
	done := make(chan error, 1)
	go func() { done <- cmd.Wait() }()
	select {
	case err := <-done:
		if err != nil {
			if ee, ok := err.(*exec.ExitError); ok {
				return b.String(), ee.ExitCode(), false
			}
			return b.String() + err.Error(), -1, false
		}
		return b.String(), 0, false
	case <-time.After(deadline):
		cmd.Process.Kill()
		<-done
		return b.String(), -1, true
	}
}

func dirFiles(dir string) map[string]string {
	out := map[string]string{}
	ents, _ := os.ReadDir(dir)
	for _, e := range ents {
		if !e.IsDir() {
			b, _ := os.ReadFile(filepath.Join(dir, e.Name()))
			out[e.Name()] = string(b)
		}
	}
	return out
}

func c11Run(raw json.RawMessage, c *mc.Ctx) {
	sp := mc.Decode[c11Spec](raw)
	root := scratchRoot()
	defer os.RemoveAll(root)
	batch := sp.Batch
	valid3, valid2 := []string{"A", "B", "C"}, []string{"A", "B"}
	switch sp.Kind {
	case "cls":
		c11ClsRun(*sp.Cls, c)
	case "e4":
		w := buildBatchWorld(root, 6)
		if batch == nil {
			batch = append([]string{}, valid3...)
			batch = append(batch[:sp.Pos], append([]string{sp.Fail}, batch[sp.Pos:]...)...)
		}
		label := fmt.Sprintf("batch %v concurrency %d", batch, sp.Conc)
		// references: every line alone
		ref := map[string]map[string]string{}
		for _, n := range batch {
			if _, ok := ref[n]; ok {
				continue
			}
			bf := filepath.Join(root, "ref_"+n+".txt")
			os.WriteFile(bf, []byte(w.Lines[n]+" resultfolder="+filepath.Join(root, "ref", n)+"\n"), 0o644)
			out, code, to := runBinary(root, 120*time.Second, "-module", "batch", "-batch", bf, "-workingdir", root)
			c.Trace(1)
			if to || code != 0 {
				if strings.HasPrefix(n, "F") {
					c.Violate("failing-line-kills-the-process "+n, fmt.Sprintf("line %s run alone: the process ended with exit code %d (timeout=%v) instead of reporting a run error: %s", n, code, to, tailStr(out, 300)), nil)
				} else {
					c.Violate("valid-line-kills-the-process "+n, fmt.Sprintf("line %s (valid input) run alone: the process ended with exit code %d (timeout=%v): %s", n, code, to, tailStr(out, 300)), nil)
				}
				return
			}
			ref[n] = dirFiles(filepath.Join(root, "ref", n))
			failed := strings.Contains(out, "[0] Error:")
			if strings.HasPrefix(n, "F") && !failed {
				c.Violate("input-error-not-reported "+n, fmt.Sprintf("line %s run alone: the input is in one of the error classes, but the run reported success: %s", n, tailStr(out, 300)), nil)
				return
			}
			if failed != strings.HasPrefix(n, "F") {
				mc.HarnessError("C11: line %s alone: failed=%v; output %s", n, failed, tailStr(out, 400))
			}
		}
		var b strings.Builder
		for i, n := range batch {
			fmt.Fprintf(&b, "%s resultfolder=%s\n", w.Lines[n], filepath.Join(root, "got", fmt.Sprintf("%d_%s", i, n)))
		}
		bf := filepath.Join(root, "batch.txt")
		// the batch file is written with LF, with CRLF, or with CRLF and blank lines before, between and after the entries
		btxt := b.String()
		switch (sp.Pos + sp.Conc + len(batch)) % 3 {
		case 1:
			btxt = strings.ReplaceAll(btxt, "\n", "\r\n")
		case 2:
			btxt = "\r\n" + strings.ReplaceAll(btxt, "\n", "\r\n\r\n") + "\r\n"
		}
		os.WriteFile(bf, []byte(btxt), 0o644)
		out, code, to := runBinary(root, 120*time.Second, "-module", "batch", "-batch", bf, "-workingdir", root, "-concurrent", fmt.Sprint(sp.Conc))
		c.Trace(1)
		c.Transition(1)
		c.Eval(3)
		h := mc.NewHasher().S(label).Sum()
		c.State(h)
		c.NonTrivial(h)
		cls := " " + sp.Fail
		if sp.Batch != nil {
			cls = " multi"
		}
		if to {
			c.Violate("batch-does-not-terminate"+cls, fmt.Sprintf("%s: the process did not end within 120 s", label), nil)
			return
		}
		if code != 0 {
			c.Violate("failing-line-kills-the-batch"+cls, fmt.Sprintf("%s: process exit code %d: %s", label, code, tailStr(out, 400)), nil)
			return
		}
		var want []int
		for i, n := range batch {
			if strings.HasPrefix(n, "F") {
				want = append(want, i)
			}
		}
		var got []int
		if i := strings.Index(out, "Error Summary:"); i >= 0 {
			for _, m := range c17ErrLine.FindAllStringSubmatch(out[i:], -1) {
				var id int
				fmt.Sscan(m[1], &id)
				got = append(got, id)
			}
		}
		sort.Ints(got)
		if fmt.Sprint(got) != fmt.Sprint(want) {
			c.Violate("error-summary"+cls, fmt.Sprintf("%s: error summary lists lines %v, failing lines are %v: %s", label, got, want, tailStr(out, 500)), nil)
		}
		for i, n := range batch {
			g := dirFiles(filepath.Join(root, "got", fmt.Sprintf("%d_%s", i, n)))
			if strings.HasPrefix(n, "F") {
				continue
			}
			for name, wantTxt := range ref[n] {
				if g[name] != wantTxt {
					c.Violate("valid-line-differs-from-run-alone"+cls, fmt.Sprintf("%s: line %d (%s): file %s differs from the line run alone: %s", label, i, n, name, strings.Replace(c18Diff(wantTxt, g[name], nil), "edited file gives", "alone gives", 1)), nil)
					break
				}
			}
			if len(g) != len(ref[n]) {
				c.Violate("valid-line-file-set-differs"+cls, fmt.Sprintf("%s: line %d (%s) wrote %d files, alone %d", label, i, n, len(g), len(ref[n])), nil)
			}
		}
		c.Outcome("e4-ok")
	case "e3":
		w := buildBatchWorld(root, 3)
		if batch == nil {
			batch = append([]string{}, valid2...)
			batch = append(batch[:sp.Pos], append([]string{sp.Fail}, batch[sp.Pos:]...)...)
		}
		var lines []string
		var fail []int
		for i, n := range batch {
			lines = append(lines, w.Lines[n])
			if strings.HasPrefix(n, "F") {
				fail = append(fail, i)
			}
		}
		sc := e3Scenario{WD: root, Lines: lines, Conc: sp.Conc, Bound: sp.Bound, DeadlineS: 140, ExpectFail: fail, Schedule: sp.Sched, Shard: sp.Shard, Shards: sp.Shards}
		if c.Tier == "thorough" {
			sc.DeadlineS = 3000
		}
		e3Judge(c, sc, raw, fmt.Sprintf("batch %v concurrency %d bound %d", batch, sp.Conc, sp.Bound), root, func(s []int) json.RawMessage {
			o := sp
			o.Sched = s
			b, _ := json.Marshal(o)
			return b
		})
	case "lat":
		b := e1Base{Soil: "loam12", GW: 99, InitW: 0.6, InitN: 30, ET: 3, Start: "2001-03-01"}
		p := e1Project(b, 150)
		p.Rotation = append(p.Rotation[:1], proj.CropEntry{Crop: "SW", Sow: "2001-03-20", Harvest: "2001-08-10", Rex: 50}, proj.CropEntry{Crop: "WW", Sow: "2003-10-01", Harvest: "2004-07-30"})
		p.Weather = seasonWeather(proj.D(p.WeatherStart), 200)
		p.Write(root)
		for lat := sp.LatFrom; lat <= sp.LatTo; lat++ {
			for _, pd := range []string{"15032001", "01052001", "15062001", "20072001"} {
				args := append(p.Args(root), fmt.Sprintf("Latitude=%d", lat), "VirtualDateFertilizerPrediction="+pd)
				bf := filepath.Join(root, "lat.txt")
				os.WriteFile(bf, []byte(strings.Join(args, " ")+"\n"), 0o644)
				out, code, to := runBinary(root, 120*time.Second, "-module", "batch", "-batch", bf, "-workingdir", root)
				c.Trace(1)
				c.Transition(1)
				c.Eval(1)
				h := mc.NewHasher().S("lat").I(lat).S(pd).Sum()
				c.State(h)
				c.NonTrivial(h)
				zone := "mid-latitude"
				switch {
				case lat > 66 || lat < -66:
					zone = "polar"
				case lat < 35 && lat > -35:
					zone = "low-latitude"
				}
				switch {
				case to:
					c.Violate("fertiliser-prediction-does-not-terminate "+zone, fmt.Sprintf("latitude %d, prediction date %s: the run did not end within 120 s", lat, pd), nil)
					c.Sample(sp)
					return // one non-terminating run per scenario is enough (each costs the whole deadline)
				case code != 0:
					c.Violate("fertiliser-prediction-kills-the-process "+zone, fmt.Sprintf("latitude %d, prediction date %s: process exit code %d: %s", lat, pd, code, tailStr(out, 300)), nil)
				case strings.Contains(out, "[0] Error:"):
					c.Outcome("prediction-run-error " + zone)
				default:
					c.Outcome("prediction-run-ok " + zone)
				}
			}
		}
	}
	c.Sample(sp)
}
