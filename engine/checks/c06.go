package checks

import (
	"encoding/json"
	"fmt"
	"math"
	"os"
	"path/filepath"
	"reflect"
	"strings"
	"time"
	"unsafe"

	"github.com/zalf-rpm/Hermes2Go/hermes"
	"verif/mc"
	"verif/proj"
)

// C06 — water content within physical bounds; no NaN/Inf anywhere in state or outputs.

type c06Spec struct {
	Base   e1Base    `json:"base"`
	GWMode string    `json:"gw_mode"` // const | poly | series
	GH     int       `json:"gh,omitempty"`
	GL     int       `json:"gl,omitempty"`
	Phase  int       `json:"phase,omitempty"`
	Levels []float64 `json:"levels,omitempty"` // series mode: level alphabet
	Alpha  []string  `json:"alpha,omitempty"`
	D      int       `json:"d,omitempty"`
	Rep    int       `json:"rep,omitempty"` // every symbol is repeated Rep days (block word)
	Word   []string  `json:"word,omitempty"`
	LWord  []float64 `json:"lword,omitempty"` // series mode: one level per word day
	Lat    float64   `json:"lat,omitempty"`   // latitude (0 = default 52.52); polar sites use a sunshine-hours column
	Long   *lwSpec   `json:"long,omitempty"`  // a long world (long.go) instead of words
	TBase  *float64  `json:"tbase,omitempty"` // configured annual mean temperature (lower boundary of the soil temperature)
}

func repeatWord(w []string, rep int) []string {
	if rep <= 1 {
		return w
	}
	var o []string
	for _, s := range w {
		for i := 0; i < rep; i++ {
			o = append(o, s)
		}
	}
	return o
}

var c06Alpha = []string{"dry-hot-windy", "drizzle", "extreme", "frost", "heavy"}

func c06Specs(tier string, seed int) []c06Spec {
	var out []c06Spec
	d := 3
	if tier == "thorough" {
		d = 4
	}
	soils := []string{"loam12", "sand20", "silt5st", "one", "two", "three", "stony9", "peat12", "peat5", "clay20", "expl12", "silt20", "mixedte12", "mixedet12"}
	for _, so := range soils {
		n := soilN(so)
		for _, gw := range []int{99, 1, max(1, n/2), n, n + 1} {
			for _, iw := range []float64{0, 0.6, 1.3} {
				for _, crop := range []string{"", "SW"} {
					b := e1Base{Soil: so, GW: gw, InitW: iw, InitN: 20, Crop: crop, ET: 3}
					if crop != "" {
						b.WarmUp = 40
					}
					if gw == n && n > 1 {
						b.DrainDep, b.DrainFrac = min(n, 3), 0.5
					}
					out = append(out, c06Spec{Base: b, GWMode: "const", Alpha: c06Alpha, D: d})
				}
			}
		}
		// sinusoidal groundwater from the polygon file, block words of 12 days per symbol
		for _, hl := range [][2]int{{1, max(2, n)}, {max(1, n/2), n + 3}, {3, 3}} {
			for _, ph := range []int{0, 80, 200} {
				b := e1Base{Soil: so, GW: 99, InitW: 0.6, InitN: 20, ET: 3}
				dd := 2
				if tier == "thorough" {
					dd = 3
				}
				out = append(out, c06Spec{Base: b, GWMode: "poly", GH: hl[0], GL: hl[1], Phase: ph, Alpha: []string{"dry-hot-windy", "heavy", "drizzle", "zero-flux"}, D: dd, Rep: 12})
			}
		}
		// groundwater time series: every level word, weather constant per run
		lv := []float64{1, float64(n) / 2, float64(n)/2 + 0.5, float64(n), 25}
		// (zero-flux: a day without rain whose potential evapotranspiration is clipped to zero, i.e. no surface flux at all)
		for _, sym := range []string{"drizzle", "dry-hot-windy", "heavy", "frost", "zero-flux"} {
			b := e1Base{Soil: so, GW: 99, InitW: 0.6, InitN: 20, ET: 3}
			if sym == "zero-flux" {
				b.ET = 1 // Haude with a saturation deficit of exactly 0: potential ET is 0, no rain -> no surface flux
			}
			out = append(out, c06Spec{Base: b, GWMode: "series", Levels: lv, Alpha: []string{sym}, D: d})
		}
	}
	// polar and tropical sites in their dark / bright season, every ET method, bare soil and a young crop
	for _, lat := range []float64{80, 69, -70, 1} {
		for _, start := range []string{"2001-12-05", "2001-06-10"} {
			for _, et := range []int{1, 2, 3, 4} {
				for _, crop := range []string{"", "SW"} {
					b := e1Base{Soil: "loam12", GW: 99, InitW: 0.7, InitN: 20, Crop: crop, ET: et, Start: start}
					if crop != "" {
						b.WarmUp = 25
					}
					out = append(out, c06Spec{Base: b, GWMode: "const", Alpha: []string{"calm-dark", "no-sun-no-rad", "frost", "drizzle"}, D: 2, Lat: lat})
				}
			}
		}
	}
	// sites with a cold, freezing-point and hot annual mean temperature (configuration value): mineral and peat soils
	for _, tb := range []float64{-3.5, 0, 27} {
		tb := tb
		for _, so := range []string{"peat12", "peat5", "loam12", "clay20"} {
			for _, crop := range []string{"", "SW"} {
				b := e1Base{Soil: so, GW: 99, InitW: 0.8, InitN: 30, Crop: crop, ET: 3}
				if crop != "" {
					b.WarmUp = 30
				}
				if so == "peat12" {
					b.GW = 8
				}
				out = append(out, c06Spec{Base: b, GWMode: "const", Alpha: []string{"frost", "deep-frost", "dry-hot-windy", "heavy"}, D: 3, TBase: &tb})
			}
		}
	}
	// profiles whose horizons have very different wilting points, started just above each band's dryness limit
	// (measurement given as volumetric water content): the evaporation demand cascades through layers at their limit
	ex := func(lower, wp, fc, ps int) proj.Horizon {
		return proj.Horizon{Tex: "SL3", Lower: lower, BD: 3, Corg: 0.8, CN: 10, WP: wp, FC: fc, PS: ps}
	}
	type lay struct {
		hor []proj.Horizon
		lim []float64 // largest dryness limit (wilting point / 3) within each 30 cm band
	}
	for _, l := range []lay{
		{[]proj.Horizon{ex(3, 6, 20, 40), ex(9, 27, 40, 50)}, []float64{0.02, 0.09, 0.09}},
		{[]proj.Horizon{ex(3, 27, 40, 50), ex(9, 6, 20, 40)}, []float64{0.09, 0.02, 0.02}},
		{[]proj.Horizon{ex(1, 6, 20, 40), ex(6, 24, 38, 48)}, []float64{0.08, 0.08}},
		{[]proj.Horizon{ex(2, 30, 42, 50), ex(4, 9, 25, 40), ex(12, 21, 35, 45)}, []float64{0.10, 0.07, 0.07, 0.07}},
		{[]proj.Horizon{ex(3, 3, 8, 35), ex(9, 24, 38, 48)}, []float64{0.01, 0.08, 0.08}}, // coarse top: a shower re-wets it enough for full evaporation
		{[]proj.Horizon{ex(3, 3, 9, 35), ex(6, 15, 30, 45), ex(12, 30, 42, 50)}, []float64{0.01, 0.05, 0.10, 0.10}},
	} {
		for _, eps := range []float64{0.001, 0.01, 0.03} {
			for _, crop := range []string{"", "SW"} {
				var iv []float64
				for _, x := range l.lim {
					iv = append(iv, x+eps)
				}
				b := e1Base{Soil: "layered", Hor: l.hor, GW: 99, InitVol: iv, InitN: 20, Crop: crop, ET: 3}
				if crop != "" {
					b.WarmUp = 30
				}
				out = append(out, c06Spec{Base: b, GWMode: "const", Alpha: []string{"dry-hot-windy", "hot-shower", "drizzle", "rain"}, D: d + 1})
			}
		}
	}
	for _, lw := range lwSpecs(tier, seed, false) {
		lw := lw
		out = append(out, c06Spec{Long: &lw})
	}
	return out
}

func init() {
	mc.Register(&mc.Check{
		ID:        "C06",
		Technique: "explicit-state bounded exploration of the real day loop: all weather words (and all groundwater-level words) up to depth D from a grid of initial states, per-layer bounds and whole-state finiteness evaluated after every day",
		Rule: "scenario = initial state (soil incl. 1-3 layer and peat profiles and profiles with contrasting wilting points started just above each layer's dryness limit x groundwater regime const/sinusoid/series x initial water x crop) with all words of Sigma^D (sinusoid: block words of 12 days per symbol; series: all level words); " +
			"state = (water profile, field capacities, groundwater level); non-trivial = day on which a layer sits at a bound, capillary rise is active or the groundwater level changed",
		Assumptions: []string{"bounds use 1e-12 slack", "every float64 reachable from the run's state struct by reflection is inspected, and the text of the daily/yearly/crop result files is searched for NaN/Inf"},
		Bound: func(t string) string {
			if t == "quick" {
				return "D=3 over 5 symbols (const gw), D=2 block words (sinusoid), all 5^3 level words (series)"
			}
			return "D=4 over 5 symbols (const gw), D=3 block words (sinusoid), all 5^4 level words (series)"
		},
		Budget: func(t string) time.Duration {
			if t == "quick" {
				return 150 * time.Second
			}
			return 45 * time.Minute
		},
		Scenarios: func(tier string, seed int) []json.RawMessage { return mc.Specs(c06Specs(tier, seed)) },
		Run:       c06Run,
	})
}

// floatRegion is a run of float64 values inside a struct type (offset from the struct base).
type floatRegion struct {
	off  uintptr
	n    int
	name string
}

var regionCache = map[reflect.Type][]floatRegion{}

func floatRegions(t reflect.Type, base uintptr, name string, out *[]floatRegion) {
	switch t.Kind() {
	case reflect.Float64:
		*out = append(*out, floatRegion{base, 1, name})
	case reflect.Struct:
		for i := 0; i < t.NumField(); i++ {
			f := t.Field(i)
			floatRegions(f.Type, base+f.Offset, name+"."+f.Name, out)
		}
	case reflect.Array:
		et := t.Elem()
		if et.Kind() == reflect.Float64 {
			*out = append(*out, floatRegion{base, t.Len(), name})
			return
		}
		if et.Kind() == reflect.Array || et.Kind() == reflect.Struct {
			for i := 0; i < t.Len(); i++ {
				floatRegions(et, base+uintptr(i)*et.Size(), fmt.Sprintf("%s[%d]", name, i), out)
			}
		}
	}
}

// nonFinite scans every float64 stored inline in the struct v points to (arrays, nested structs) and the
// float slices hanging off it, and returns the paths of NaN/Inf values.
func nonFinite(v reflect.Value, path string, out *[]string) {
	t := v.Type()
	regs, ok := regionCache[t]
	if !ok {
		floatRegions(t, 0, "", &regs)
		regionCache[t] = regs
	}
	base := unsafe.Pointer(v.UnsafeAddr())
	for _, r := range regs {
		fs := unsafe.Slice((*float64)(unsafe.Add(base, r.off)), r.n)
		for i, f := range fs {
			if f != f || f > math.MaxFloat64 || f < -math.MaxFloat64 {
				if r.n > 1 {
					*out = append(*out, fmt.Sprintf("%s[%d]=%v", r.name, i, f))
				} else {
					*out = append(*out, fmt.Sprintf("%s=%v", r.name, f))
				}
				if len(*out) >= 5 {
					return
				}
				break
			}
		}
	}
	for i := 0; i < t.NumField(); i++ {
		if f := v.Field(i); f.Kind() == reflect.Slice && f.Type().Elem().Kind() == reflect.Float64 {
			for j := 0; j < f.Len(); j++ {
				if x := f.Index(j).Float(); math.IsNaN(x) || math.IsInf(x, 0) {
					*out = append(*out, fmt.Sprintf(".%s[%d]=%v", t.Field(i).Name, j, x))
					break
				}
			}
		}
	}
}

func fieldRoot(p string) string {
	p = strings.TrimPrefix(p, ".")
	for i, ch := range p {
		if ch == '.' || ch == '[' || ch == '=' {
			return p[:i]
		}
	}
	return p
}

type c06Probe struct {
	c       *mc.Ctx
	label   string
	measDay int
	wgStart [21]float64
	capLay  int
	capIdx  int
	gwPrev  float64
	peatCls string
	phi0    [21]float64 // pore volume of each layer on the first day of the run (a property of the soil matrix)
	havePhi bool
}

func c06Debug(g *hermes.GlobalVarsMain, zeit int) {
	if os.Getenv("C06_DEBUG") != "" {
		fmt.Printf("day %d GRW=%.3g FLUSS0=%g WG=%.4v W=%.4v\n", zeit, g.GRW, g.FLUSS0, g.WG[1][:g.N], g.W[:g.N])
	}
}

func (l *c06Probe) probe() *hermes.VerifProbe {
	return &hermes.VerifProbe{
		AfterEvatra: func(g *hermes.GlobalVarsMain, zeit int, w *hermes.WaterSharedVars) {
			// water at the start of the day's water step (after groundwater adjustment / measurement)
			for i := 0; i < g.N; i++ {
				l.wgStart[i] = g.WG[0][i]
			}
			// the layer that may receive capillary rise today and its tabulated rate (as in Water)
			l.capLay, l.capIdx = 0, -1
			for i := g.N; i >= 1; i-- {
				if w.NFK[i-1] < 0.7 {
					l.capLay = i
					break
				}
			}
			if l.capLay > 0 {
				gwdist := g.GRW + 1 - float64(l.capLay)
				if gwdist < 21 {
					if gwdist < 0 {
						gwdist = 0
					}
					if gwdist > .9 {
						l.capIdx = int(math.Round(math.Max(gwdist, 1))) - 1
					}
				}
			}
		},
		DayEnd: func(g *hermes.GlobalVarsMain, zeit int, steps, wdt float64, cs *hermes.CropSharedVars, w *hermes.WaterSharedVars) {
			c06Debug(g, zeit)
			N := g.N
			l.c.Transition(1)
			h := mc.NewHasher().Fs(g.WG[1][:N]).Fs(g.W[:N]).F(g.GRW)
			l.c.State(h.Sum())
			l.c.Eval(N + 1)
			nt := l.capIdx >= 0 || g.GRW != l.gwPrev
			l.gwPrev = g.GRW
			if !l.havePhi {
				l.phi0, l.havePhi = g.PORGES, true
			}
			for i := 0; i < N; i++ {
				wg := g.WG[1][i]
				if !finite(wg) {
					l.c.Violate("water-nonfinite", fmt.Sprintf("%s day %d layer %d: water content %v", l.label, zeit, i+1, wg), nil)
					continue
				}
				if zeit <= l.measDay {
					continue
				}
				lo := g.WMIN[i] / 3
				if l.wgStart[i] >= lo && wg < lo-1e-12 {
					l.c.Violate("below-dryness-limit", fmt.Sprintf("%s day %d layer %d: water content %.12g below one third of the wilting point %.12g (started the day at %.12g)", l.label, zeit, i+1, wg, lo, l.wgStart[i]), nil)
				}
				hi := g.W[i]
				if i+1 == l.capLay && l.capIdx >= 0 {
					hi += g.CAPS[l.capIdx]
				}
				// (field capacity never exceeds the pore volume - C15 -, so the pore volume bounds the water content as well)
				// ... the pore volume the layer has at the start of the run: nothing in the model moves the soil matrix
				if phi := math.Min(g.PORGES[i], l.phi0[i]); phi > 0 && wg > phi+(hi-g.W[i])+1e-12 {
					l.c.Violate("above-pore-volume", fmt.Sprintf("%s day %d layer %d/%d: water content %.12g above the pore volume %.12g (field capacity %.12g; groundwater %.4g)", l.label, zeit, i+1, N, wg, phi, g.W[i], g.GRW), nil)
				}
				if wg > hi+1e-12 {
					l.c.Violate("above-field-capacity", fmt.Sprintf("%s day %d layer %d/%d: water content %.12g above field capacity %.12g (+capillary increment; groundwater %.4g)", l.label, zeit, i+1, N, wg, hi, g.GRW), nil)
				}
				if wg <= lo+1e-12 || wg >= g.W[i]-1e-12 {
					nt = true
				}
			}
			if nt {
				l.c.NonTrivial(h.I(zeit).Sum())
			}
			var bad []string
			nonFinite(reflect.ValueOf(g).Elem(), "", &bad)
			for _, b := range bad {
				l.c.Violate("state-nonfinite "+fieldRoot(b)+l.peatCls, fmt.Sprintf("%s day %d: state variable %s", l.label, zeit, b), nil)
			}
		},
	}
}

func c06Run(raw json.RawMessage, c *mc.Ctx) {
	sp := mc.Decode[c06Spec](raw)
	root := scratchRoot()
	defer os.RemoveAll(root)
	if sp.Long != nil {
		w := lwBuild(*sp.Long)
		w.P.Config["OutputIntervall"] = "1"
		if b, err := os.ReadFile(filepath.Join(proj.RepoDir(), "examples", "project", "myP", "dailyout_conf.yml")); err == nil {
			w.P.DailyCols = string(b)
		}
		w.P.Write(root)
		peat := ""
		if soilCat[lwDefs()[sp.Long.World].soil][0].Tex[0] == 'H' {
			peat = " peat"
		}
		l := &c06Probe{c: c, measDay: w.Start, label: "long world " + w.Name, peatCls: peat}
		res := proj.Run(root, w.P.Args(root), l.probe())
		c.Trace(1)
		switch {
		case res.Panic != "":
			c.Violate("run-panic", fmt.Sprintf("run panicked on valid input (%s): %s", l.label, res.Panic), nil)
		case !res.Success:
			c.Violate("run-error", fmt.Sprintf("run failed on valid input (%s): %s", l.label, res.Err), nil)
		default:
			c.Outcome("ok long world")
			for name, txt := range res.Files {
				if strings.Contains(txt, "NaN") || strings.Contains(txt, "Inf") {
					c.Violate("output-nonfinite"+peat, fmt.Sprintf("%s: result file %s contains NaN/Inf", l.label, name), nil)
				}
			}
		}
		c.Sample(map[string]interface{}{"long_world": w.Name, "days": w.Days})
		return
	}
	type run struct {
		w  []string
		lw []float64
	}
	var runs []run
	switch {
	case sp.Word != nil:
		runs = []run{{sp.Word, sp.LWord}}
	case sp.GWMode == "series":
		var rec func(pre []float64)
		rec = func(pre []float64) {
			if len(pre) == sp.D {
				w := make([]string, sp.D)
				for i := range w {
					w[i] = sp.Alpha[0]
				}
				runs = append(runs, run{w, append([]float64{}, pre...)})
				return
			}
			for _, l := range sp.Levels {
				rec(append(pre, l))
			}
		}
		rec(nil)
	default:
		for _, w := range words(sp.Alpha, sp.D) {
			runs = append(runs, run{w, nil})
		}
	}
	warm := sp.Base.WarmUp
	nword := len(repeatWord(runs[0].w, sp.Rep))
	ndays := 2 + warm + nword
	p := e1Project(sp.Base, ndays)
	p.Config["OutputIntervall"] = "1"
	if sp.TBase != nil {
		p.Config["AnnualAverageTemperature"] = fmt.Sprint(*sp.TBase)
	}
	if sp.Lat != 0 {
		p.Config["Latitude"] = fmt.Sprint(sp.Lat)
		p.SunColumn = true
	}
	if b, err := os.ReadFile(filepath.Join(proj.RepoDir(), "examples", "project", "myP", "dailyout_conf.yml")); err == nil {
		p.DailyCols = string(b)
	}
	h0 := p.Rotation[0].Harvest
	switch sp.GWMode {
	case "poly":
		p.Config["GroundWaterFrom"] = "polygonfile"
		p.Config["GroundWaterPhase"] = fmt.Sprint(sp.Phase)
		p.GWHi, p.GWLo = sp.GH, sp.GL
	case "series":
		p.Config["GroundWaterFrom"] = "gwTimeSeries"
	}
	start := proj.ZEIT(proj.D(h0))
	peat := ""
	if hz := sp.Base.horizons(); hz[0].Tex[0] == 'H' {
		peat = " peat"
		if hz[len(hz)-1].Lower < 9 {
			peat += " N<9"
		}
	}
	written := false
	for _, r := range runs {
		full := repeatWord(r.w, sp.Rep)
		p.Weather = e1Weather(warm, full, sp.Base.ET == 1)
		if sp.GWMode == "series" {
			// level of the first word day holds from the start; then one point per word day
			p.GWSeries = []proj.GWPoint{{Date: isoAdd(h0, -2), Level: r.lw[0]}}
			for i, lv := range r.lw {
				p.GWSeries = append(p.GWSeries, proj.GWPoint{Date: isoAdd(h0, 2+warm+i), Level: lv})
			}
		}
		if !written || sp.GWMode == "series" {
			p.Write(root)
			written = true
		} else {
			writeWeather(root, p)
		}
		l := &c06Probe{c: c, measDay: start + 1, label: fmt.Sprintf("word=%v levels=%v", r.w, r.lw), peatCls: peat}
		nv := len(c.Viol)
		res := proj.Run(root, p.Args(root), l.probe())
		c.Trace(1)
		switch {
		case res.Panic != "":
			c.Outcome("panic")
			c.Violate("run-panic", fmt.Sprintf("run panicked on valid input (%s): %s", l.label, res.Panic), nil)
		case !res.Success:
			c.Outcome("run-error")
			c.Violate("run-error", fmt.Sprintf("run failed on valid input (%s): %s", l.label, res.Err), nil)
		default:
			c.Outcome("ok")
			for name, txt := range res.Files {
				if strings.Contains(txt, "NaN") || strings.Contains(txt, "Inf") {
					c.Violate("output-nonfinite"+peat, fmt.Sprintf("%s: result file %s contains NaN/Inf", l.label, name), nil)
				}
			}
		}
		if len(c.Viol) > nv && sp.Word == nil {
			one := sp
			one.Word, one.LWord, one.Alpha, one.D = r.w, r.lw, nil, 0
			b, _ := json.Marshal(one)
			for i := nv; i < len(c.Viol); i++ {
				c.Viol[i].Spec = b
			}
		}
	}
	c.Sample(map[string]interface{}{"initial_state": sp.Base, "gw_mode": sp.GWMode, "runs": len(runs), "last_word": runs[len(runs)-1]})
}
