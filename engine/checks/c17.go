package checks

import (
	"bytes"
	"encoding/json"
	"fmt"
	"os"
	"os/exec"
	"path/filepath"
	"regexp"
	"sort"
	"strconv"
	"strings"
	"time"

	"verif/mc"
)

// C17 — the ranges printed by the real calcHermesBatch, each handed to the real hermes2go -lines, execute every
// non-empty batch line exactly once (E4: both shipped binaries driven as subprocesses over an enumerated space).

type c17Spec struct {
	Kind string `json:"kind"` // lk | shape | boundary | longline
	Len  int    `json:"len,omitempty"` // longline: length of the one long line (bytes without the line end)
	// lk: every node count 1..KMax for the line counts LFrom..LTo; ranges are executed by the simulator for L,K <= ExecMax
	LFrom, LTo, KMax, ExecMax int
	// shape: batch files given as sequences over {0: blank, 1: "x", 2: "xy"}, index range into the canonical list
	ShapeFrom, ShapeTo int
	CRLF               bool `json:"crlf"`
	FinalNL            bool `json:"final_nl"`
	// boundary: one long file whose 32 KiB read boundary falls at offset Off relative to a line end
	Off int `json:"off"`
}

var c17Ks = []int{1, 2, 3, 7}

func c17Shapes(maxLen int) [][]int {
	out := [][]int{}
	var rec func(cur []int, n int)
	for n := 1; n <= maxLen; n++ {
		rec = func(cur []int, left int) {
			if left == 0 {
				out = append(out, append([]int{}, cur...))
				return
			}
			for s := 0; s < 3; s++ {
				rec(append(cur, s), left-1)
			}
		}
		rec(nil, n)
	}
	return out
}

func init() {
	mc.Register(&mc.Check{
		ID:        "C17",
		Technique: "exhaustive enumeration to a bound over the two real command-line programs: every (line count, node count) pair and every small batch-file shape; each printed range is executed by the real simulator and the executed line ids are compared with the partition specification",
		Rule: "lk scenarios: all (L,K) with the real calcHermesBatch -list/-size, ranges parsed and judged (contiguous, disjoint, 1..L, count = size); for L,K <= ExecMax every range is additionally run through the real hermes2go -lines a-b on a batch of instantly failing lines, whose error summary names exactly the executed line ids; " +
			"shape scenarios: all sequences of <= 6 lines over {blank, short line, long line} x {LF, CRLF} x {final newline, none} x K in {1,2,3,7}; boundary scenarios: files longer than the calculator's 32 KiB read buffer with the buffer edge at every offset -3..+3 around a line end; " +
			"case = (file, K); non-trivial = L>=2 and K>=2, or a file with blank lines/CRLF",
		Assumptions: []string{"a non-empty batch line is what the simulator's reader keeps: split at LF, one trailing CR removed, length > 0", "files without any non-empty line are outside the quantifier (line counts 1..L)",
			"every generated line fails before touching any file with an error message that names the line (an invalid crop-override name L<k>), so the error summary shows which lines - by content, not by position - were executed"},
		Bound: func(t string) string {
			if t == "quick" {
				return "L 1..60 x K 1..60 (ranges executed for L,K <= 12, concurrency 1 and 3); all 1092 shapes of <= 6 lines x 4 encodings x 4 node counts; 14 buffer-boundary files"
			}
			return "L 1..400 x K 1..120 (ranges executed for L,K <= 30); all 1092 shapes of <= 6 lines x 4 encodings x 4 node counts (all executed); 14 buffer-boundary files"
		},
		Budget: func(t string) time.Duration {
			if t == "quick" {
				return 150 * time.Second
			}
			return 40 * time.Minute
		},
		Prepare: func(tier string) {
			mc.BuildRepoBinary("calcHermesBatch")
			mc.BuildRepoBinary("hermes2go")
		},
		Scenarios: func(tier string, seed int) []json.RawMessage {
			var out []c17Spec
			lmax, kmax, ex := 60, 60, 12
			if tier == "thorough" {
				lmax, kmax, ex = 400, 120, 30
			}
			for l := 1; l <= lmax; l += 2 {
				out = append(out, c17Spec{Kind: "lk", LFrom: l, LTo: min(l+1, lmax), KMax: kmax, ExecMax: ex})
			}
			n := len(c17Shapes(6))
			for _, crlf := range []bool{false, true} {
				for _, fnl := range []bool{true, false} {
					for from := 0; from < n; from += 40 {
						out = append(out, c17Spec{Kind: "shape", ShapeFrom: from, ShapeTo: min(from+40, n), CRLF: crlf, FinalNL: fnl})
					}
				}
			}
			// lines that consist of blanks or tabs only (they count as lines for both programs) among ordinary lines
			for _, crlf := range []bool{false, true} {
				out = append(out, c17Spec{Kind: "wsline", CRLF: crlf})
			}
			// a very short last line without line end (1-2 bytes, with or without a carriage return) behind 0-2 ordinary lines
			out = append(out, c17Spec{Kind: "tail"})
			// one very long line (many arguments) among short ones: lengths around the 4 KiB and 8 KiB buffer sizes of the
			// standard readers, and up to just below the 64 KiB line limit of the simulator's scanner
			for _, crlf := range []bool{false, true} {
				for _, n := range []int{4095, 4096, 4097, 6557, 8192, 8193, 20000, 65000} {
					out = append(out, c17Spec{Kind: "longline", CRLF: crlf, Len: n})
				}
			}
			for _, crlf := range []bool{false, true} {
				for off := -3; off <= 3; off++ {
					out = append(out, c17Spec{Kind: "boundary", CRLF: crlf, Off: off})
				}
			}
			return mc.Specs(out)
		},
		Run: c17Run,
	})
}

// nonEmptyLines: the simulator's definition (bufio.Scanner line splitting, length > 0).
func c17NonEmpty(content []byte) int {
	n := 0
	for _, l := range bytes.Split(content, []byte("\n")) {
		l = bytes.TrimSuffix(l, []byte("\r"))
		if len(l) > 0 {
			n++
		}
	}
	return n
}

type c17Range struct{ a, b int }

func c17Calc(bin, file string, k int) (size string, list string, err error) {
	a1, a2 := []string{"-size", strconv.Itoa(k), "-batch", file}, []string{"-list", strconv.Itoa(k), "-batch", file}
	if k%2 == 0 { // both orders of the two options
		a1, a2 = []string{"-batch", file, "-size", strconv.Itoa(k)}, []string{"-batch", file, "-list", strconv.Itoa(k)}
	}
	o1, e1 := exec.Command(bin, a1...).Output()
	if e1 != nil {
		return "", "", fmt.Errorf("-size: %v", e1)
	}
	o2, e2 := exec.Command(bin, a2...).Output()
	if e2 != nil {
		return "", "", fmt.Errorf("-list: %v", e2)
	}
	return string(o1), string(o2), nil
}

var c17ErrLine = regexp.MustCompile(`(?m)^\[(\d+)\] Error:`)

// every generated batch line fails before any file is touched with an error message that names the line:
// "invalid crop parameter name: L<k>" (k = number of the line among the non-empty lines)
var c17IdLine = regexp.MustCompile(`(?m)^\[(\d+)\] Error: (.*)$`)
var c17IdMsg = regexp.MustCompile(`invalid crop parameter name: L(\d+)`)

func c17Line(k int, long bool) string {
	s := fmt.Sprintf("project=x plotNr=1 CropFile=f c_L%d=1", k)
	// a batch line is a set of key=value arguments: other key first, indented by a blank or a tab
	switch k % 5 {
	case 1:
		s = fmt.Sprintf("plotNr=1 c_L%d=1 project=x CropFile=f", k)
	case 2:
		s = " " + s
	case 3:
		s = "\t" + s
	}
	if long {
		s += " fcode=abcdefgh"
	}
	return s
}

// c17Exec runs the real simulator on one range and returns the 1-based ids of the executed lines.
func c17Exec(bin, file string, r c17Range, conc int) ([]int, error) {
	// the option groups in six of their orders (the programs read their options in one left-to-right pass)
	lines := fmt.Sprintf("%d-%d", r.a, r.b)
	groups := [][]string{{"-module", "batch"}, {"-batch", file}, {"-lines", lines}, {"-concurrent", strconv.Itoa(conc)}}
	orders := [][]int{{0, 1, 2, 3}, {2, 1, 0, 3}, {3, 2, 0, 1}, {1, 3, 2, 0}, {2, 3, 1, 0}, {0, 2, 3, 1}}
	var args []string
	for _, gi := range orders[(r.a+2*r.b+conc)%len(orders)] {
		args = append(args, groups[gi]...)
	}
	cmd := exec.Command(bin, args...)
	var out bytes.Buffer
	cmd.Stdout, cmd.Stderr = &out, &out
	if err := cmd.Start(); err != nil {
		return nil, err
	}
	done := make(chan error, 1)
	go func() { done <- cmd.Wait() }()
	select {
	case err := <-done:
		if err != nil {
			return nil, fmt.Errorf("simulator exit: %v: %.300s", err, out.String())
		}
	case <-time.After(c17Deadline):
		cmd.Process.Kill()
		return nil, fmt.Errorf("simulator did not terminate within %v on range %d-%d", c17Deadline, r.a, r.b)
	}
	s := out.String()
	i := strings.Index(s, "Error Summary:")
	if i < 0 {
		return nil, fmt.Errorf("no error summary in output: %.300s", s)
	}
	var ids []int
	for _, m := range c17IdLine.FindAllStringSubmatch(s[i:], -1) {
		if id := c17IdMsg.FindStringSubmatch(m[2]); id != nil {
			v, _ := strconv.Atoi(id[1])
			ids = append(ids, v)
		} else {
			ids = append(ids, -1) // something that is not one of the batch lines was executed
		}
	}
	return ids, nil
}

// c17WsLines: number of lines of the file under judgement that consist of blanks and tabs only. Both programs count them
// as lines; the simulator runs such a line as a run without arguments, which fails with an error of its own.
var c17WsLines = 0

// c17Deadline: non-termination deadline per simulator call (normal duration of these calls: below 0.1 s)
var c17Deadline = 120 * time.Second

// c17Judge evaluates one (file, K) case. exec: also run every range through the simulator.
func c17Judge(c *mc.Ctx, calc, sim, file string, nonEmpty, k int, execute bool, label, cls string) {
	c.Eval(1)
	c.Transition(1)
	size, list, err := c17Calc(calc, file, k)
	if err != nil {
		c.Violate("calculator-failed"+cls, fmt.Sprintf("%s K=%d: %v", label, k, err), nil)
		return
	}
	var rs []c17Range
	for _, f := range strings.Fields(list) {
		var r c17Range
		if n, _ := fmt.Sscanf(f, "%d-%d", &r.a, &r.b); n != 2 {
			c.Violate("unparsable-list"+cls, fmt.Sprintf("%s K=%d: -list printed %q", label, k, list), nil)
			return
		}
		rs = append(rs, r)
	}
	kind := "L>=K"
	if nonEmpty < k {
		kind = "L<K"
	}
	sz, serr := strconv.Atoi(strings.TrimSpace(size))
	if serr != nil {
		c.Violate("unparsable-size"+cls, fmt.Sprintf("%s K=%d: -size printed %q", label, k, size), nil)
		return
	}
	if len(rs) != sz {
		c.Violate("range-count-differs-from-size "+kind+cls, fmt.Sprintf("%s (%d non-empty lines) K=%d: -size reports %d but -list printed %d ranges %q", label, nonEmpty, k, sz, len(rs), list), nil)
		return
	}
	next := 1
	for i, r := range rs {
		if r.a != next || r.b < r.a {
			c.Violate("ranges-not-contiguous "+kind+cls, fmt.Sprintf("%s (%d non-empty lines) K=%d: range %d is %d-%d, expected to start at %d; list %q", label, nonEmpty, k, i+1, r.a, r.b, next, list), nil)
			return
		}
		next = r.b + 1
	}
	if next-1 != nonEmpty {
		c.Violate("ranges-do-not-cover-1..L "+kind+cls, fmt.Sprintf("%s K=%d: ranges end at line %d but the file has %d non-empty lines; list %q", label, k, next-1, nonEmpty, list), nil)
		return
	}
	c.Outcome("partition-ok " + kind)
	if !execute {
		return
	}
	var ran []int
	for i, r := range rs {
		ids, err := c17Exec(sim, file, r, []int{1, 3}[(i+k)%2])
		c.Trace(1)
		if err != nil {
			c.Violate("simulator-failed"+cls, fmt.Sprintf("%s K=%d range %d-%d: %v", label, k, r.a, r.b, err), nil)
			return
		}
		ran = append(ran, ids...)
	}
	sort.Ints(ran)
	ok := len(ran) == nonEmpty
	if c17WsLines > 0 {
		// the lines of blanks show up as failed runs that name no line; the others must be the remaining positions, once each
		ws := 0
		seen := map[int]bool{}
		for _, id := range ran {
			if id == -1 {
				ws++
			} else if seen[id] || id < 1 || id > nonEmpty {
				ok = false
			}
			seen[id] = true
		}
		ok = ok && ws == c17WsLines
	} else {
		for i := 0; ok && i < len(ran); i++ {
			ok = ran[i] == i+1
		}
	}
	if !ok {
		c.Violate("executed-lines-not-exactly-once"+cls, fmt.Sprintf("%s (%d non-empty lines) K=%d: ranges %q executed line ids %v", label, nonEmpty, k, list, ran), nil)
		return
	}
	c.Outcome("executed-exactly-once " + kind)
}

func c17Run(raw json.RawMessage, c *mc.Ctx) {
	sp := mc.Decode[c17Spec](raw)
	calc, sim := mc.RepoBinary("calcHermesBatch"), mc.RepoBinary("hermes2go")
	root := scratchRoot()
	defer os.RemoveAll(root)
	file := filepath.Join(root, "batch.txt")
	switch sp.Kind {
	case "lk":
		for l := sp.LFrom; l <= sp.LTo; l++ {
			var b strings.Builder
			for i := 1; i <= l; i++ {
				b.WriteString(c17Line(i, i%3 == 0) + "\n")
			}
			os.WriteFile(file, []byte(b.String()), 0o644)
			for k := 1; k <= sp.KMax; k++ {
				h := mc.NewHasher().S("lk").I(l).I(k).Sum()
				c.State(h)
				if l >= 2 && k >= 2 {
					c.NonTrivial(h)
				}
				c17Judge(c, calc, sim, file, l, k, l <= sp.ExecMax && k <= sp.ExecMax, fmt.Sprintf("%d lines", l), "")
			}
		}
		c.Sample(sp)
	case "shape":
		shapes := c17Shapes(6)
		eol := "\n"
		if sp.CRLF {
			eol = "\r\n"
		}
		for si := sp.ShapeFrom; si < sp.ShapeTo; si++ {
			var b strings.Builder
			blank := false
			nth := 0
			for i, s := range shapes[si] {
				if s > 0 {
					nth++
					b.WriteString(c17Line(nth, s == 2))
				}
				blank = blank || s == 0
				if i+1 < len(shapes[si]) || sp.FinalNL {
					b.WriteString(eol)
				}
			}
			content := []byte(b.String())
			ne := c17NonEmpty(content)
			if ne == 0 {
				c.Outcome("no-non-empty-line (outside the quantifier)")
				continue
			}
			os.WriteFile(file, content, 0o644)
			cls := " LF"
			if sp.CRLF {
				cls = " CRLF"
			}
			if blank {
				cls += " blank-lines"
			}
			for _, k := range c17Ks {
				h := mc.NewHasher().S("shape").I(si).I(k).S(cls).I(b2i(sp.FinalNL)).Sum()
				c.State(h)
				c.NonTrivial(h)
				c17Judge(c, calc, sim, file, ne, k, c.Tier == "thorough" || (si+k+c.Seed)%4 == 0, fmt.Sprintf("file %q", content), cls)
			}
		}
		c.Sample(sp)
	case "wsline":
		eol := "\n"
		cls := " LF blank-character-lines"
		if sp.CRLF {
			eol, cls = "\r\n", " CRLF blank-character-lines"
		}
		// all sequences of 1..4 lines over {line of blanks, line of a tab, ordinary line} with at least one ordinary line
		stop := false
		var rec func(cur []int)
		rec = func(cur []int) {
			if len(cur) > 0 && !stop {
				var b strings.Builder
				ws, real := 0, 0
				for i, t := range cur {
					switch t {
					case 0:
						b.WriteString("   " + eol)
						ws++
					case 1:
						b.WriteString("\t" + eol)
						ws++
					default:
						b.WriteString(c17Line(i+1, false) + eol)
						real++
					}
				}
				if ws > 0 && real > 0 {
					os.WriteFile(file, []byte(b.String()), 0o644)
					c17WsLines = ws
					nv := len(c.Viol)
					c17Deadline = 20 * time.Second // (200 times the normal duration of these calls)
					for _, k := range []int{1, 2, 3} {
						if len(c.Viol) > nv {
							break
						}
						h := mc.NewHasher().S("wsline").S(fmt.Sprint(cur)).I(k).S(cls).Sum()
						c.State(h)
						c.NonTrivial(h)
						c17Judge(c, calc, sim, file, len(cur), k, true, fmt.Sprintf("file %q", b.String()), cls)
					}
					c17WsLines = 0
					c17Deadline = 120 * time.Second
					if len(c.Viol) > nv {
						stop = true // one failing file is enough; a hanging simulator costs a deadline per call
					}
				}
			}
			if len(cur) == 4 || stop {
				return
			}
			for t := 0; t < 3; t++ {
				rec(append(append([]int{}, cur...), t))
			}
		}
		rec(nil)
		c.Sample(sp)
	case "tail":
		for _, eol := range []string{"\n", "\r\n"} {
			for n := 0; n <= 2; n++ {
				for _, tail := range []string{"x", "x\r", "xy", "xy\r", "x\r\n", "x\n"} {
					var b strings.Builder
					for i := 1; i <= n; i++ {
						b.WriteString(c17Line(i, false) + eol)
					}
					b.WriteString(tail)
					content := []byte(b.String())
					os.WriteFile(file, content, 0o644)
					cls := " short-last-line"
					c17WsLines = 1 // the short line is no valid batch line: it runs as a failing run that names no line
					c17Deadline = 20 * time.Second
					for _, k := range []int{1, 2} {
						h := mc.NewHasher().S("tail").S(string(content)).I(k).Sum()
						c.State(h)
						c.NonTrivial(h)
						c17Judge(c, calc, sim, file, n+1, k, true, fmt.Sprintf("file %q", content), cls)
					}
					c17WsLines = 0
					c17Deadline = 120 * time.Second
				}
			}
		}
		c.Sample(sp)
	case "longline":
		eol := "\n"
		cls := " LF long-line"
		if sp.CRLF {
			eol, cls = "\r\n", " CRLF long-line"
		}
		for pos := 1; pos <= 5; pos += 2 {
			var b strings.Builder
			for i := 1; i <= 5; i++ {
				l := c17Line(i, false)
				if i == pos {
					// further arguments with keys the simulator does not know (they are ignored), up to the wanted length
					for j := 0; len(l) < sp.Len; j++ {
						a := fmt.Sprintf(" pad%05d=x", j)
						if rem := sp.Len - len(l); len(a) > rem {
							if rem < 4 {
								a = strings.Repeat(" ", rem)
							} else {
								a = " " + strings.Repeat("y", rem-3) + "=z"
							}
						}
						l += a
					}
				}
				b.WriteString(l + eol)
			}
			content := []byte(b.String())
			os.WriteFile(file, content, 0o644)
			for _, k := range []int{1, 2, 5} {
				h := mc.NewHasher().S("longline").I(sp.Len).I(pos).I(k).S(cls).Sum()
				c.State(h)
				c.NonTrivial(h)
				c17Judge(c, calc, sim, file, 5, k, true, fmt.Sprintf("5 lines, line %d is %d bytes long", pos, sp.Len), cls)
			}
		}
		c.Sample(sp)
	case "boundary":
		// lines of 62 characters + EOL; the read buffer of the calculator is 32768 bytes. Shift the first line so that the
		// buffer edge falls Off bytes after the end of some line's text.
		eol := "\n"
		if sp.CRLF {
			eol = "\r\n"
		}
		unit := 62 + len(eol)
		first := (32768+sp.Off)%unit + unit // length (incl. EOL) of the first line so that a later line's text ends at 32768+Off
		var b strings.Builder
		b.WriteString(strings.Repeat("a", first-len(eol)) + eol)
		n := 1
		for b.Len() < 70000 {
			if n%5 == 0 {
				b.WriteString(eol) // blank line
			} else {
				b.WriteString(strings.Repeat("b", 62) + eol)
			}
			n++
		}
		content := []byte(b.String())
		os.WriteFile(file, content, 0o644)
		ne := c17NonEmpty(content)
		cls := " LF long-file"
		if sp.CRLF {
			cls = " CRLF long-file"
		}
		for _, k := range []int{1, 3, 7} {
			h := mc.NewHasher().S("boundary").I(sp.Off).I(k).S(cls).Sum()
			c.State(h)
			c.NonTrivial(h)
			c17Judge(c, calc, sim, file, ne, k, false, fmt.Sprintf("file of %d bytes, buffer edge offset %d", len(content), sp.Off), cls)
		}
		c.Sample(sp)
	}
}

func b2i(b bool) int {
	if b {
		return 1
	}
	return 0
}
