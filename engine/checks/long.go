package checks

import (
	"strings"
	"fmt"
	"time"

	"github.com/zalf-rpm/Hermes2Go/hermes"
	"verif/mc"
	"verif/proj"
)

// ---- long worlds: multi-year rotations with management, sampling and moving groundwater ----------------------------------
//
// The word families reach every state within a few days of a grid of initial states. The long worlds add the states only a
// history reaches: the second and third year of a run (year changes, the start day's day-of-year in a later year, the leap
// day), crops standing far into senescence, successions of crops (annual after annual, legume before cereal, perennial
// after perennial), soil sampling dates in the middle of the run, repeated fertiliser/irrigation/tillage events,
// groundwater that moves through the profile for years. Every check that judges single days applies its own day-level
// oracle, unchanged, to every day of every long world.

type lwSpec struct {
	World int `json:"world"`
	Var   int `json:"var"` // weather variant
}

type lwInfo struct {
	Name      string
	P         *proj.Project
	Start     int                 // day number of the first simulated day
	Days      int
	Exempt    map[int]bool        // days on which measured values overwrite the state
	IrrN      map[int]float64     // day -> kg N/ha entering with irrigation water
	Weather   []proj.Day
	MovingGW  bool
	ConstGWIn bool // constant table inside the profile
}

func (w *lwInfo) rainOf(zeit int) (float64, bool) {
	i := zeit - w.Start + 3
	if i < 0 || i >= len(w.Weather) {
		return 0, false
	}
	return w.Weather[i].Precip / 10, true
}

type lwDef struct {
	name        string
	soil        string
	gw          int // constant level from the soil file (99 = none)
	gh, gl      int // polygon-file sinusoid
	series      [][2]float64 // (day offset, level) groundwater series
	drainDep    int
	drainFrac   float64
	et          int
	start       string
	days        int
	rot         []proj.CropEntry
	fert        []proj.Fert
	irr         []proj.Irr
	till        []proj.Till
	measOff     int // measurement day offset (default 1)
	measMode    int
	constSeries bool // groundwater series with one level throughout: a constant groundwater depth
	measShort   bool    // the measurement file has the short layout: readings for 0-9 dm only
	autoTable   int         // management table variant of c16Row for autoRot (0 = base)
	autoRot     int         // >0: rotation c16Rots[autoRot-1] under automatic sowing and harvest (management table of C16, base variant)
	heights     *[3]float64 // weather files with the third header line (altitude, wind height, base CO2)
	leachAbove  bool    // leaching depth above the profile bottom (outside C02's quantifier)
	rootDepth   int     // soil root depth (dm); 0 = min(profile, 12)
	lat         float64 // latitude; 0 = default
	initW, initN float64
	cfg         map[string]string
}

func d(iso string, off int) string { return isoAdd(iso, off) }

func lwDefs() []lwDef {
	s1 := "2001-08-15"
	s2 := "2002-02-20"
	return []lwDef{
		{name: "loam-ww-sm", soil: "loam12", gw: 99, et: 3, start: s1, days: 930, initW: 0.6, initN: 30,
			rot: []proj.CropEntry{{Crop: "WW", Sow: "2001-09-25", Harvest: "2002-08-05", Rex: 50}, {Crop: "SM", Sow: "2003-04-25", Harvest: "2003-10-10", Rex: 0}, {Crop: "WW", Sow: "2003-10-20", Harvest: "2004-08-01"}},
			fert: []proj.Fert{{Date: "2002-03-10", Amount: 60, Kind: "KAS"}, {Date: "2002-04-20", Amount: 50, Kind: "KAS"}, {Date: "2003-04-10", Amount: 30, Kind: "RG"}, {Date: "2003-05-30", Amount: 80, Kind: "URE"}},
			till: []proj.Till{{Date: "2002-08-20", Depth: 10, Typ: 1}, {Date: "2002-10-15", Depth: 25, Typ: 1}, {Date: "2003-04-15", Depth: 8, Typ: 2}}},
		{name: "sand-gw12-drain-late-harvest", soil: "sand20", gw: 12, drainDep: 8, drainFrac: 0.5, et: 2, start: s2, days: 800, initW: 0.8, initN: 20,
			rot: []proj.CropEntry{{Crop: "SW", Sow: "2002-03-25", Harvest: "2002-09-20", Rex: 100}, {Crop: "WR", Sow: "2002-10-01", Harvest: "2003-09-05", Rex: 50}, {Crop: "SM", Sow: "2004-04-25", Harvest: "2004-10-01"}},
			fert: []proj.Fert{{Date: "2002-04-15", Amount: 70, Kind: "KAS"}, {Date: "2003-03-15", Amount: 90, Kind: "AHL"}},
			irr:  []proj.Irr{{Date: "2002-06-10", MM: 25, NConc: 10}, {Date: "2002-06-25", MM: 30, NConc: 0}, {Date: "2003-05-20", MM: 20, NConc: 20}}},
		{name: "silt-series-soy-ww", soil: "silt20", gw: 99, series: [][2]float64{{-5, 25}, {120, 14}, {240, 2}, {330, 2}, {420, 9}, {600, 30}, {760, 6}}, et: 3, start: s2, days: 820, initW: 0.6, initN: 30,
			rot: []proj.CropEntry{{Crop: "SOY", Sow: "2002-05-01", Harvest: "2002-10-05", Rex: 0}, {Crop: "WW", Sow: "2002-10-15", Harvest: "2003-08-10", Rex: 50}, {Crop: "LUP", Sow: "2004-04-01", Harvest: "2004-08-30"}},
			fert: []proj.Fert{{Date: "2003-03-20", Amount: 80, Kind: "KAS"}},
			till: []proj.Till{{Date: "2003-08-25", Depth: 20, Typ: 1}}},
		{name: "clay-sinus-alfalfa-grass", soil: "clay20", gw: 99, gh: 4, gl: 14, et: 4, start: s2, days: 780, initW: 0.7, initN: 30,
			rot: []proj.CropEntry{{Crop: "AA", Sow: "2002-03-25", Harvest: "2002-06-20", Rex: 100}, {Crop: "AA", Sow: "2002-06-21", Harvest: "2002-08-15", Rex: 100}, {Crop: "AA", Sow: "2002-08-16", Harvest: "2002-10-20", Rex: 100},
				{Crop: "GR", Sow: "2003-03-20", Harvest: "2003-06-10", Rex: 100}, {Crop: "GR", Sow: "2003-06-11", Harvest: "2003-09-01", Rex: 100}, {Crop: "WW", Sow: "2004-10-01", Harvest: "2005-08-01"}},
			fert: []proj.Fert{{Date: "2003-04-01", Amount: 60, Kind: "KAS"}, {Date: "2003-06-15", Amount: 40, Kind: "KAS"}}},
		{name: "peat-gw5-maize-maize-nostress", soil: "peat12", gw: 5, et: 3, start: s2, days: 700, initW: 0.9, initN: 10,
			rot: []proj.CropEntry{{Crop: "SM", Sow: "2002-04-25", Harvest: "2002-10-15", Rex: 0}, {Crop: "SM", Sow: "2003-04-28", Harvest: "2003-10-20", Rex: 50}, {Crop: "SM", Sow: "2004-04-25", Harvest: "2004-10-15"}},
			till: []proj.Till{{Date: "2002-11-01", Depth: 30, Typ: 1}}},
		{name: "explicit-late-sampling", soil: "expl12", gw: 99, et: 5, start: s1, days: 640, initW: 0.5, initN: 25, measOff: 250,
			rot: []proj.CropEntry{{Crop: "WG", Sow: "2001-09-20", Harvest: "2002-07-10", Rex: 50}, {Crop: "OEL", Sow: "2002-08-25", Harvest: "2003-07-20", Rex: 0}, {Crop: "WW", Sow: "2003-10-01", Harvest: "2004-08-01"}},
			fert: []proj.Fert{{Date: "2002-03-01", Amount: 60, Kind: "KAS"}, {Date: "2002-04-10", Amount: 60, Kind: "KAS"}, {Date: "2002-09-10", Amount: 40, Kind: "KAS"}, {Date: "2003-03-05", Amount: 100, Kind: "KAS"}}},
		{name: "stony-no-n-rye-late", soil: "stony9", gw: 99, et: 3, start: s1, days: 760, initW: 0.6, initN: 3,
			rot: []proj.CropEntry{{Crop: "WR", Sow: "2001-09-25", Harvest: "2002-09-10", Rex: 0}, {Crop: "OA", Sow: "2003-03-20", Harvest: "2003-09-15", Rex: 50}, {Crop: "WW", Sow: "2003-10-01", Harvest: "2004-08-01"}}},
		{name: "three-layer-beet-potato", soil: "three", gw: 99, et: 1, start: s2, days: 640, initW: 0.7, initN: 40,
			rot: []proj.CropEntry{{Crop: "ZR", Sow: "2002-04-05", Harvest: "2002-10-25", Rex: 0}, {Crop: "K", Sow: "2003-04-20", Harvest: "2003-09-20", Rex: 0}, {Crop: "WW", Sow: "2003-10-10", Harvest: "2004-08-01"}},
			fert: []proj.Fert{{Date: "2002-04-01", Amount: 100, Kind: "KAS"}, {Date: "2003-04-15", Amount: 120, Kind: "KAS"}}},
		{name: "loam-gw3-catch-crop", soil: "loam12", gw: 3, drainDep: 12, drainFrac: 1, et: 3, start: s1, days: 600, initW: 1.0, initN: 30,
			rot: []proj.CropEntry{{Crop: "PH", Sow: "2001-08-25", Harvest: "2002-02-10", Rex: 0}, {Crop: "SW", Sow: "2002-03-20", Harvest: "2002-08-15", Rex: 50}, {Crop: "WRA", Sow: "2002-08-28", Harvest: "2003-07-25"}},
			fert: []proj.Fert{{Date: "2002-04-05", Amount: 80, Kind: "KAS"}, {Date: "2002-09-10", Amount: 40, Kind: "KAS"}, {Date: "2003-03-01", Amount: 120, Kind: "KAS"}}},
		{name: "sand-series-falling-barley", soil: "sand20", gw: 99, series: [][2]float64{{-5, 3}, {90, 3}, {200, 12}, {400, 22}, {500, 8}}, et: 3, start: s1, days: 560, initW: 0.9, initN: 30,
			rot: []proj.CropEntry{{Crop: "WG", Sow: "2001-09-20", Harvest: "2002-07-15", Rex: 50}, {Crop: "SE", Sow: "2002-08-01", Harvest: "2002-11-20", Rex: 0}, {Crop: "SW", Sow: "2003-03-20", Harvest: "2003-08-20"}},
			fert: []proj.Fert{{Date: "2002-03-10", Amount: 70, Kind: "KAS"}}},
		{name: "sand8-beet-deep-table", soil: "sand8", gw: 99, et: 3, start: s2, days: 600, initW: 0.7, initN: 40, rootDepth: 8,
			rot:  []proj.CropEntry{{Crop: "ZR", Sow: "2002-04-05", Harvest: "2002-10-25", Rex: 0}, {Crop: "ZR", Sow: "2003-04-10", Harvest: "2003-10-20", Rex: 0, Variety: "chrnew"}, {Crop: "WW", Sow: "2003-11-01", Harvest: "2004-08-01"}},
			fert: []proj.Fert{{Date: "2002-04-01", Amount: 120, Kind: "KAS"}, {Date: "2003-04-05", Amount: 120, Kind: "KAS"}}},
		{name: "loam7-wheat-rape", soil: "loam7", gw: 99, et: 2, start: s1, days: 720, initW: 0.6, initN: 30, rootDepth: 7,
			rot:  []proj.CropEntry{{Crop: "WW", Sow: "2001-09-25", Harvest: "2002-08-05", Rex: 50}, {Crop: "WRA", Sow: "2002-08-25", Harvest: "2003-07-20", Rex: 50}, {Crop: "WW", Sow: "2003-10-01", Harvest: "2004-08-01"}},
			fert: []proj.Fert{{Date: "2002-03-10", Amount: 90, Kind: "KAS"}, {Date: "2003-03-01", Amount: 140, Kind: "KAS"}}},
		{name: "silt-shallow-roots-deep-rooters", soil: "silt20", gw: 99, et: 3, start: s1, days: 800, initW: 0.5, initN: 30, rootDepth: 4,
			rot:  []proj.CropEntry{{Crop: "WW", Sow: "2001-09-25", Harvest: "2002-08-05", Rex: 50}, {Crop: "ZR", Sow: "2003-04-05", Harvest: "2003-10-20", Rex: 0, Variety: "chrnew"}, {Crop: "WW", Sow: "2003-11-01", Harvest: "2004-08-01"}},
			fert: []proj.Fert{{Date: "2002-03-10", Amount: 120, Kind: "KAS"}, {Date: "2003-04-01", Amount: 140, Kind: "KAS"}}},
		{name: "loamy-sand-over-gravel-beet", soil: "gravel12", gw: 99, et: 3, start: s2, days: 620, initW: 0.6, initN: 40, rootDepth: 4,
			rot:  []proj.CropEntry{{Crop: "ZR", Sow: "2002-04-05", Harvest: "2002-10-25", Rex: 0, Variety: "chrnew"}, {Crop: "ZR", Sow: "2003-04-10", Harvest: "2003-10-20", Rex: 0, Variety: "chrnew"}, {Crop: "WW", Sow: "2003-11-01", Harvest: "2004-08-01"}},
			fert: []proj.Fert{{Date: "2002-04-01", Amount: 120, Kind: "KAS"}, {Date: "2003-04-05", Amount: 120, Kind: "KAS"}}},
		{name: "loam-alfalfa-uncut-mulched", soil: "loam12", gw: 99, et: 3, start: s1, days: 700, initW: 0.6, initN: 30,
			rot: []proj.CropEntry{{Crop: "AA", Sow: "2001-09-01", Harvest: "2002-10-15", Rex: 0}, {Crop: "GR", Sow: "2002-10-20", Harvest: "2003-06-30", Rex: 0}, {Crop: "WW", Sow: "2003-10-01", Harvest: "2004-08-01"}}},
		{name: "north-60-winter-wheat", soil: "loam12", gw: 99, et: 3, start: s1, days: 700, initW: 0.6, initN: 30, lat: 61,
			rot:  []proj.CropEntry{{Crop: "WW", Sow: "2001-09-05", Harvest: "2002-08-25", Rex: 50}, {Crop: "WR", Sow: "2002-09-05", Harvest: "2003-08-20", Rex: 50}, {Crop: "WW", Sow: "2004-09-01", Harvest: "2005-08-01"}},
			fert: []proj.Fert{{Date: "2002-04-10", Amount: 90, Kind: "KAS"}}},
		{name: "south-59-rape", soil: "sand20", gw: 99, et: 2, start: s2, days: 640, initW: 0.7, initN: 30, lat: -59.5,
			rot:  []proj.CropEntry{{Crop: "WRA", Sow: "2002-03-01", Harvest: "2003-01-20", Rex: 50}, {Crop: "WG", Sow: "2003-03-10", Harvest: "2003-12-20", Rex: 50}, {Crop: "WW", Sow: "2004-09-01", Harvest: "2005-08-01"}}},
		{name: "sand20-short-volumetric-sampling", soil: "sand20", gw: 99, et: 3, start: s1, days: 560, initW: 0.6, initN: 25, measOff: 210, measMode: 3, measShort: true,
			rot:  []proj.CropEntry{{Crop: "WW", Sow: "2001-09-25", Harvest: "2002-08-05", Rex: 50}, {Crop: "SM", Sow: "2003-04-25", Harvest: "2003-10-10"}},
			fert: []proj.Fert{{Date: "2002-03-01", Amount: 60, Kind: "KAS"}, {Date: "2002-04-10", Amount: 60, Kind: "KAS"}}},
		{name: "loam-station-heights-potmin1", soil: "loam12", gw: 99, et: 3, start: s1, days: 560, initW: 0.6, initN: 30, heights: &[3]float64{320, 10, -99.9}, // (CO2 slot: the missing-value code instead of dashes)
			cfg:  map[string]string{"PotMineralisation": "1", "CO2method": "1", "CO2concentration": "500"},
			rot:  []proj.CropEntry{{Crop: "WW", Sow: "2001-09-25", Harvest: "2002-08-05", Rex: 50}, {Crop: "K", Sow: "2003-04-20", Harvest: "2003-09-20"}},
			fert: []proj.Fert{{Date: "2002-03-10", Amount: 90, Kind: "KAS"}}},
		{name: "sand-heights-co2-per-year-files", soil: "sand20", gw: 99, et: 5, start: s2, days: 520, initW: 0.6, initN: 30, heights: &[3]float64{40, 2.5, 420},
			cfg:  map[string]string{"CO2method": "3", "CO2StomataInfluence": "1"},
			rot:  []proj.CropEntry{{Crop: "SW", Sow: "2002-03-25", Harvest: "2002-08-20", Rex: 50}, {Crop: "WW", Sow: "2002-10-01", Harvest: "2003-08-05"}},
			fert: []proj.Fert{{Date: "2002-04-10", Amount: 70, Kind: "KAS"}}},
		{name: "silt-leaching-depth-9", soil: "silt20", gw: 14, et: 3, start: s2, days: 520, initW: 0.8, initN: 60, leachAbove: true,
			cfg:  map[string]string{"LeachingDepth": "9"},
			rot:  []proj.CropEntry{{Crop: "SM", Sow: "2002-04-25", Harvest: "2002-10-10", Rex: 0}, {Crop: "WW", Sow: "2002-10-20", Harvest: "2003-08-05"}},
			fert: []proj.Fert{{Date: "2002-05-20", Amount: 120, Kind: "KAS"}}},
		{name: "loam-potato-shallow-table", soil: "loam12", gw: 2, drainDep: 6, drainFrac: 0.3, et: 3, start: s2, days: 400, initW: 1.0, initN: 40,
			rot:  []proj.CropEntry{{Crop: "K", Sow: "2002-04-20", Harvest: "2002-09-20", Rex: 0}, {Crop: "WW", Sow: "2002-10-10", Harvest: "2003-08-01"}},
			fert: []proj.Fert{{Date: "2002-04-15", Amount: 120, Kind: "KAS"}}},
		{name: "dense-humous-silt-potato", soil: "siltcap12", gw: 99, et: 3, start: s2, days: 400, initW: 1.0, initN: 40,
			rot:  []proj.CropEntry{{Crop: "K", Sow: "2002-04-20", Harvest: "2002-09-20", Rex: 0}, {Crop: "WW", Sow: "2002-10-10", Harvest: "2003-08-01"}},
			fert: []proj.Fert{{Date: "2002-04-15", Amount: 120, Kind: "KAS"}}},
		{name: "silt-potato-sinus-0-8", soil: "silt20", gw: 99, gh: 1, gl: 8, et: 2, start: s2, days: 400, initW: 0.9, initN: 40,
			rot:  []proj.CropEntry{{Crop: "K", Sow: "2002-04-20", Harvest: "2002-09-20", Rex: 0}, {Crop: "WW", Sow: "2002-10-10", Harvest: "2003-08-01"}},
			fert: []proj.Fert{{Date: "2002-04-15", Amount: 100, Kind: "KAS"}}},
		{name: "table-over-explicit-horizons-series", soil: "mixedte12", gw: 99, series: [][2]float64{{-5, 20}, {60, 9}, {150, 2}, {260, 6}, {400, 25}}, et: 3, start: s2, days: 460, initW: 0.6, initN: 30,
			rot:  []proj.CropEntry{{Crop: "SW", Sow: "2002-03-25", Harvest: "2002-08-20", Rex: 50}, {Crop: "WW", Sow: "2002-10-01", Harvest: "2003-08-05"}},
			fert: []proj.Fert{{Date: "2002-04-10", Amount: 70, Kind: "KAS"}}},
		{name: "explicit-over-table-horizons-sinus", soil: "mixedet12", gw: 99, gh: 2, gl: 11, et: 3, start: s2, days: 460, initW: 0.6, initN: 30,
			rot:  []proj.CropEntry{{Crop: "SM", Sow: "2002-04-25", Harvest: "2002-10-10", Rex: 0}, {Crop: "WW", Sow: "2002-10-20", Harvest: "2003-08-05"}},
			fert: []proj.Fert{{Date: "2002-05-20", Amount: 100, Kind: "KAS"}}},
		{name: "loam-automatic-sowing-and-harvest", soil: "loam12", gw: 99, et: 3, start: s1, days: 900, initW: 0.7, initN: 40, autoRot: 2,
			cfg: map[string]string{"AutoSowingHarvest": "1", "AutoHarvest": "1", "AutoIrrigation": "1"}},
		{name: "sand-automatic-harvest-only", soil: "sand20", gw: 14, et: 2, start: s1, days: 760, initW: 0.7, initN: 40, autoRot: 1,
			cfg: map[string]string{"AutoHarvest": "1", "AutoFertilization": "1"}},
		{name: "sand-automatic-harvest-at-any-moisture", soil: "sand20", gw: 14, et: 3, start: s1, days: 760, initW: 0.7, initN: 40, autoRot: 1, autoTable: 9,
			cfg: map[string]string{"AutoHarvest": "1"}},
		{name: "humous-sand-series-rising-to-1dm", soil: "sand20", gw: 99, series: [][2]float64{{-5, 14}, {60, 2}, {120, 1}, {200, 6}, {300, 1.5}, {420, 18}}, et: 3, start: s2, days: 440, initW: 0.7, initN: 30,
			rot:  []proj.CropEntry{{Crop: "SW", Sow: "2002-03-25", Harvest: "2002-08-20", Rex: 50}, {Crop: "WW", Sow: "2002-10-01", Harvest: "2003-08-05"}},
			fert: []proj.Fert{{Date: "2002-04-10", Amount: 70, Kind: "KAS"}}},
		{name: "loam-constant-series-12", soil: "silt20", gw: 99, series: [][2]float64{{-5, 12}, {100, 12}, {333, 12}, {500, 12}}, constSeries: true, et: 3, start: s2, days: 520, initW: 0.7, initN: 30,
			rot:  []proj.CropEntry{{Crop: "SW", Sow: "2002-03-25", Harvest: "2002-08-20", Rex: 50}, {Crop: "WW", Sow: "2002-10-01", Harvest: "2003-08-05"}},
			fert: []proj.Fert{{Date: "2002-04-10", Amount: 70, Kind: "KAS"}, {Date: "2003-03-10", Amount: 90, Kind: "KAS"}}},
		{name: "clay-constant-series-15", soil: "clay20", gw: 99, series: [][2]float64{{-5, 15}, {77, 15}, {410, 15}}, constSeries: true, drainDep: 10, drainFrac: 0.3, et: 2, start: s1, days: 420, initW: 0.8, initN: 30,
			rot: []proj.CropEntry{{Crop: "WRA", Sow: "2001-08-28", Harvest: "2002-07-20", Rex: 50}, {Crop: "WW", Sow: "2002-10-01", Harvest: "2003-08-05"}}},
	}
}

func lwCount() int { return len(lwDefs()) }

// lwWeather: the benign seasonal climate with variant-specific spells (all values exactly representable).
func lwWeather(start time.Time, n, variant int) []proj.Day {
	if variant == 6 {
		// rain on every day (the temperatures of the hot-summer variant, under which crops mature before their latest harvest
		// date): each day is split into several sub-steps (2, 4, 8 and more), whatever else happens on it - also the days
		// on which the model itself decides to harvest (at most 20 mm of rain are allowed on such a day)
		w := lwWeather(start, n, 1)
		for i := range w {
			w[i].Precip = []float64{6.5, 11, 8, 17, 7, 12.5, 19}[i%7]
		}
		return w
	}
	w := seasonWeather(start, n)
	for i := range w {
		t := start.AddDate(0, 0, i)
		doy := t.YearDay()
		switch variant {
		case 0:
			if i%45 == 20 {
				w[i] = sigma["heavy"]
			}
		case 1: // hot dry summer, hard winter
			switch {
			case doy >= 180 && doy < 235:
				w[i] = c09Blocks["hot-drought"]
				if doy%11 == 0 { // single days of extreme heat
					w[i].Tmin, w[i].Tavg, w[i].Tmax = 27, 34.5, 42
				}
				if doy%13 == 0 {
					w[i].Tmin, w[i].Tavg, w[i].Tmax = 31, 38.5, 46
				}
			case doy < 35 || doy > 355:
				w[i] = c09Blocks["frost"]
			case i%60 == 30:
				w[i] = sigma["extreme"]
			}
		case 3: // cold wet year, dark spells
			switch {
			case i%9 < 3:
				w[i] = c09Blocks["cool-wet"]
			case doy > 330 || doy < 50:
				w[i] = sigma["deep-frost"]
			case i%40 == 7:
				w[i] = sigma["no-sun-no-rad"]
			}
		case 4: // monthly alternation of extremes
			switch (i / 30) % 4 {
			case 0:
				w[i] = c09Blocks["hot-drought"]
			case 1:
				w[i] = c09Blocks["waterlogged"]
			case 2:
				w[i] = c09Blocks["warm-dry"]
			}
			if i%30 == 29 {
				w[i] = sigma["extreme"]
			}
		case 5: // a year without a real summer: calm, dark, saturated air
			switch {
			case i%5 == 0:
				w[i] = sigma["zero-flux"]
			case i%5 == 1:
				w[i] = sigma["calm-dark"]
			case i%23 == 4:
				w[i] = sigma["heavy"]
			}
		case 2: // wet autumn, mild winter, showers
			switch {
			case doy >= 270 && doy < 320:
				w[i] = c09Blocks["waterlogged"]
			case i%17 == 5:
				w[i] = sigma["heavy"]
			case doy >= 150 && doy < 170:
				w[i] = sigma["hot-shower"]
			}
		}
	}
	return w
}

func lwBuild(sp lwSpec) *lwInfo {
	defs := lwDefs()
	df := defs[sp.World%len(defs)]
	b := e1Base{Soil: df.soil, GW: df.gw, DrainDep: df.drainDep, DrainFrac: df.drainFrac, InitW: df.initW, InitN: df.initN, ET: df.et, Start: df.start}
	p := e1Project(b, df.days)
	p.Rotation = append(p.Rotation[:1], df.rot...)
	p.Fert, p.Irr, p.Till = df.fert, df.irr, df.till
	if df.autoRot > 0 {
		var table strings.Builder
		table.WriteString("crp Sow1 Sow2 har2 TSmin Smomin Smomax Hmomin Hmomax Rainav Rainact TACCU Tbase Irrdv1 Irrdv2 Ndem1 Ndem2 Ndem3 stage1 stage 2 stage 3 Twindow orgF  amount appdat Irrlow irrdep irrmax\n")
		seen := map[string]bool{}
		p.Rotation = p.Rotation[:1]
		for _, cr := range c16Rots[df.autoRot-1] {
			p.Rotation = append(p.Rotation, proj.CropEntry{Crop: cr.code, Sow: cr.sow, Harvest: cr.harvest, Rex: 50})
			if !seen[cr.code] {
				table.WriteString(c16Row(cr, df.autoTable) + "\n")
				seen[cr.code] = true
			}
		}
		table.WriteString(c16Row(c16Crop{"WW", "", "", "2009", "2510", "1508", 0}, 0) + "\n")
		p.Rotation = append(p.Rotation, proj.CropEntry{Crop: "WW", Sow: "2008-10-01", Harvest: "2009-07-30"})
		p.Automan = table.String()
	}
	if df.et == 1 {
		p.VerdColumn = true
	}
	if df.rootDepth > 0 {
		p.Soil.RootDepth = df.rootDepth
	}
	if df.lat != 0 {
		p.Config["Latitude"] = fmt.Sprint(df.lat)
	}
	p.Heights = df.heights
	p.SunColumn = df.et == 4
	if df.et == 5 {
		p.Layout = 1
	}
	for k, v := range df.cfg {
		p.Config[k] = v
	}
	start := proj.D(df.start)
	info := &lwInfo{Name: fmt.Sprintf("%s/weather-variant-%d", df.name, sp.Var), P: p, Start: proj.ZEIT(start), Days: df.days, Exempt: map[int]bool{}, IrrN: map[int]float64{}}
	mo := df.measOff
	if mo == 0 {
		mo = 1
	}
	p.Meas.Date = d(df.start, mo)
	if df.measMode != 0 {
		p.Meas.Mode = df.measMode
	}
	info.Exempt[info.Start] = true
	info.Exempt[info.Start+mo] = true
	if df.measShort {
		p.Files = map[string]string{"endit_" + p.ID + ".txt": fmt.Sprintf("Plot_ID   Date     Nm03 Nm36 Nm69 M W0_3  W3_6  W6_9\nALLE      %s 14.7 12.2 05.3 %d 0.150 0.160 0.170\nend\n", proj.DateStr("DateDElong", proj.D(p.Meas.Date)), p.Meas.Mode)}
	}
	if df.gh != 0 {
		p.Config["GroundWaterFrom"] = "polygonfile"
		p.Config["GroundWaterPhase"] = "80"
		p.GWHi, p.GWLo = df.gh, df.gl
		info.MovingGW = true
	}
	if len(df.series) > 0 {
		p.Config["GroundWaterFrom"] = "gwTimeSeries"
		for _, s := range df.series {
			p.GWSeries = append(p.GWSeries, proj.GWPoint{Date: d(df.start, int(s[0])), Level: s[1]})
		}
		info.MovingGW = true
	}
	if df.constSeries {
		info.MovingGW = false
	}
	info.ConstGWIn = !info.MovingGW && (df.gw < soilN(df.soil) || df.constSeries)
	for _, ir := range df.irr {
		info.IrrN[proj.ZEIT(proj.D(ir.Date))] += ir.NConc * ir.MM * 0.01
	}
	p.Weather = lwWeather(proj.D(p.WeatherStart), df.days+10, sp.Var)
	if p.VerdColumn {
		for i := range p.Weather {
			p.Weather[i].Verd = satDeficit(p.Weather[i])
		}
	}
	info.Weather = p.Weather
	return info
}

// lwSpecs: every world under weather variants 0-2 and 6 (rain on every day) in the quick tier, under all seven in the thorough tier.
func lwSpecs(tier string, seed int, constGWOnly bool) []lwSpec {
	var out []lwSpec
	nv := 3
	if tier == "thorough" {
		nv = 7
	}
	for w, df := range lwDefs() {
		if constGWOnly && (df.gh != 0 || len(df.series) > 0) && !df.constSeries {
			continue
		}
		for v := 0; v < nv; v++ {
			out = append(out, lwSpec{World: w, Var: v})
		}
		if tier != "thorough" {
			out = append(out, lwSpec{World: w, Var: 6})
		}
	}
	return out
}

// lwRun builds, writes and runs one long world with the caller's probe and reports crashes and run errors (the worlds
// are valid inputs); it returns the world and the result for further checks on the files.
func lwRun(c *mc.Ctx, sp lwSpec, root string, prep func(w *lwInfo), probe func(w *lwInfo) *hermes.VerifProbe) (*lwInfo, *proj.RunResult) {
	w := lwBuild(sp)
	if prep != nil {
		prep(w)
	}
	w.P.Write(root)
	res := proj.Run(root, w.P.Args(root), probe(w))
	c.Trace(1)
	switch {
	case res.Panic != "":
		c.Outcome("panic")
		c.Violate("run-panic", fmt.Sprintf("run panicked on valid input (long world %s): %s", w.Name, res.Panic), nil)
	case !res.Success:
		c.Outcome("run-error")
		c.Violate("run-error", fmt.Sprintf("run failed on valid input (long world %s): %s", w.Name, res.Err), nil)
	default:
		c.Outcome("ok long world")
	}
	c.Sample(map[string]interface{}{"long_world": w.Name, "days": w.Days})
	return w, res
}
