package checks

import (
	"encoding/json"
	"fmt"
	"math"
	"os"
	"path/filepath"
	"sort"
	"strconv"
	"strings"
	"time"

	"github.com/zalf-rpm/Hermes2Go/hermes"
	yaml "gopkg.in/yaml.v3"
	"verif/mc"
	"verif/proj"
)

// C18 — a crop-parameter override on the batch line gives exactly the results of the same edit in (a copy of) the
// crop parameter file; an override that is out of range is rejected as a whole. Paired whole runs, byte comparison.

type c18Spec struct {
	File   string `json:"file"`   // shipped crop file (base name without .yml), e.g. PARAM.WW or PARAM_0.SOY
	Format string `json:"format"` // yml | txt
	Group  string `json:"group"`  // base | stage:<i> | part:<i> | invalid
	Values int    `json:"values"` // values per parameter
	Env    int    `json:"env,omitempty"` // configuration the pair of runs shares (4: the crop follows a three-stage catch crop; 5: it follows a seven-stage crop): 0 defaults; 1 CO2 method 3 at 550 ppm with stomata influence; 2 CO2 method 1 at 700 ppm, Turc-Wendling ET; 3 small soil root depth, Haude ET, other N-mineralisation method
}

var c18StageParams = []string{"TSUM", "BAS", "VSCHWELL", "DAYL", "DLBAS", "DRYSWELL", "LUKRIT", "LAIFKT", "WGMAX", "KC"}
var c18BaseParams = []string{"MAXAMAX", "MINTMP", "WUMAXPF", "VELOC", "YIFAK", "INITCONCNBIOM", "INITCONCNROOT"}

func abbrOf(file string) string { return file[strings.LastIndex(file, ".")+1:] }

func c18CropFiles() []string {
	m, _ := filepath.Glob(filepath.Join(proj.RepoDir(), "examples", "parameter", "PARAM*.yml"))
	var out []string
	for _, f := range m {
		out = append(out, strings.TrimSuffix(filepath.Base(f), ".yml"))
	}
	sort.Strings(out)
	return out
}

func c18Specs(tier string, seed int) []c18Spec {
	var out []c18Spec
	vals := 1
	if tier == "thorough" {
		vals = 2
	}
	for i, f := range c18CropFiles() {
		formats := []string{"yml", "txt"}
		_ = i
		for _, fm := range formats {
			out = append(out, c18Spec{File: f, Format: fm, Group: "base", Values: vals}, c18Spec{File: f, Format: fm, Group: "invalid", Values: vals})
			if fm == "yml" {
				// one line carrying an override of every base parameter and of every parameter of the first stage, executed
				// several times (the overrides of a line are kept in maps: their order of application varies from run to run)
				out = append(out, c18Spec{File: f, Format: fm, Group: "multi", Values: 1}, c18Spec{File: f, Format: fm, Group: "multi", Values: 1, Env: 4})
			}
			// the base parameters under every configuration variant; stage and organ parameters under a rotating one
			for env := 1; env <= 3; env++ {
				if tier == "thorough" || fm == "txt" || env == 1+i%3 {
					out = append(out, c18Spec{File: f, Format: fm, Group: "base", Values: vals, Env: env})
				}
			}
			// ... and as second crop of the rotation, after a crop with fewer development stages
			out = append(out, c18Spec{File: f, Format: fm, Group: "base", Values: vals, Env: 4}, c18Spec{File: f, Format: fm, Group: "invalid", Values: vals, Env: 4})
			for s := 4; s <= 7; s++ {
				if tier == "thorough" || (i+s)%2 == 0 {
					out = append(out, c18Spec{File: f, Format: fm, Group: fmt.Sprintf("stage:%d", s), Values: vals, Env: 4})
				}
			}
			// ... and after a crop with MORE stages (seven): slots beyond the named crop's stages hold that crop's values
			for s := 1; s <= 6; s++ {
				if tier == "thorough" || (i+s)%2 == 1 || abbrOf(f) == "ZR" {
					out = append(out, c18Spec{File: f, Format: fm, Group: fmt.Sprintf("stage:%d", s), Values: vals, Env: 5})
				}
			}
			for s := 1; s <= 10; s++ {
				env := (i + s) % 4
				out = append(out, c18Spec{File: f, Format: fm, Group: fmt.Sprintf("stage:%d", s), Values: vals, Env: env}, c18Spec{File: f, Format: fm, Group: fmt.Sprintf("part:%d", s), Values: vals, Env: (env + 1) % 4})
			}
		}
	}
	return out
}

func init() {
	mc.Register(&mc.Check{
		ID:        "C18",
		Technique: "exhaustive enumeration of every overridable crop parameter (base, per stage, per stage and organ) x every shipped crop parameter file x format (YAML / classic) x values, as paired complete runs: override on the batch line vs the same edit in a copy of the crop file; out-of-range overrides vs no override; result files compared byte for byte",
		Rule: "case = (crop file, format, parameter, stage, organ, value): run A with CropFile=<file> c_<PARAM>[_stage[_organ]]=v on the shipped file, run B without override on a parameter folder whose copy of the file has that field set to v (YAML: structure edit; classic: text edit at the field's columns); A and B must produce byte-identical daily/yearly/crop files; " +
			"invalid group: out-of-range value, stage or organ index (alone and together with a valid override) must equal the run without any override; non-trivial = the override changes the result files compared with the unmodified crop file",
		Assumptions: []string{"values are short decimals derived from the file's value (x0.9 / x1.1 or +-delta inside the valid range), written identically on the line and in the file", "annual crops: one sowing-to-harvest season; perennial crops: the same crop in two consecutive rotation entries",
			"daily output holds the crop state (biomass, LAI, N content, rooting depth, stage, organ masses, ET, N-min)"},
		Bound: func(t string) string {
			if t == "quick" {
				return "all shipped crop files x 2 formats x all base, stage and organ parameters x 1 value + 12-15 rejected overrides each"
			}
			return "all shipped crop files x 2 formats x all base, stage and organ parameters x 2 values + 12-15 rejected overrides each"
		},
		Budget: func(t string) time.Duration {
			if t == "quick" {
				return 170 * time.Second
			}
			return 60 * time.Minute
		},
		Scenarios: func(tier string, seed int) []json.RawMessage { return mc.Specs(c18Specs(tier, seed)) },
		Run:       c18Run,
	})
}

// seasonWeather: a smooth synthetic climate (dyadic values) so that crops develop through their stages.
func seasonWeather(start time.Time, n int) []proj.Day {
	out := make([]proj.Day, n)
	for i := range out {
		t := start.AddDate(0, 0, i)
		doy := float64(t.YearDay())
		q := func(v float64) float64 { return math.Round(v*8)/8 + 0 } // (+0 turns a negative zero into zero)
		tavg := q(9.5 + 10*math.Sin(2*math.Pi*(doy-110)/365))
		d := proj.Day{Tavg: tavg, Tmin: tavg - 4, Tmax: tavg + 4, RH: 70, Wind: 2.5,
			Rad: q(11 + 9*math.Sin(2*math.Pi*(doy-80)/365)), Sun: q(6 + 4*math.Sin(2*math.Pi*(doy-80)/365)), ET0: 2}
		if i%3 == 0 {
			d.Precip = 6
		}
		out[i] = d
	}
	return out
}

var c18Winter = map[string]bool{"WW": true, "WG": true, "WR": true, "WRA": true, "WRC": true, "TR": true}

const c18Daily = "OBMAS,WUMAS,LAI,PESUM,GEHOB,WUGEH,WURZ,INTWICK.Num,WORG:0,WORG:1,WORG:2,WORG:3,WORG:4,ASPOO,PHYLLO,REDUK,TRREL,VERDUNST,C1:0,C1:3,OUTSUM"

// c18Project builds the project for a crop file; param = parameter folder name passed on the batch line ("" = default).
func c18Project(file string, yml bool) (*proj.Project, string, string) {
	// file: PARAM.WW or PARAM_0.SOY
	abbr := file[strings.LastIndex(file, ".")+1:]
	variety := ""
	if i := strings.Index(file, "_"); i >= 0 {
		variety = file[i+1 : strings.LastIndex(file, ".")]
	}
	b := e1Base{Soil: "loam12", GW: 99, InitW: 0.7, InitN: 40, ET: 3, Start: "2001-08-15"}
	p := e1Project(b, 440)
	rot := p.Rotation[:1]
	switch {
	case abbr == "AA" || abbr == "GR":
		rot = append(rot, proj.CropEntry{Crop: abbr, Sow: "2002-04-10", Harvest: "2002-07-01", Rex: 100, Variety: variety},
			proj.CropEntry{Crop: abbr, Sow: "2002-07-02", Harvest: "2002-09-20", Rex: 100, Variety: variety})
	case c18Winter[abbr]:
		rot = append(rot, proj.CropEntry{Crop: abbr, Sow: "2001-10-05", Harvest: "2002-07-25", Rex: 50, Variety: variety})
	default:
		rot = append(rot, proj.CropEntry{Crop: abbr, Sow: "2002-04-15", Harvest: "2002-09-25", Rex: 50, Variety: variety})
	}
	p.Rotation = append(rot, proj.CropEntry{Crop: "WW", Sow: "2003-10-01", Harvest: "2004-07-30"})
	p.Config["OutputIntervall"] = "1"
	p.Config["CropParameterFormat"] = map[bool]string{true: "yml", false: "txt"}[yml]
	p.DailyCols = minimalDailyWith(strings.Split(c18Daily, ",")...)
	p.Fert = []proj.Fert{{Date: "2002-04-20", Amount: 80, Kind: "KAS"}}
	p.Weather = seasonWeather(proj.D(p.WeatherStart), 460)
	cropFile := file
	if yml {
		cropFile += ".yml"
	}
	return p, cropFile, abbr
}

type c18Case struct {
	name  string   // e.g. c_TSUM_2
	args  []string // override arguments
	apply func(cp *hermes.CropParam) // the same edit on the YAML structure
	// classic text edit
	line, col, width int
	text             string
}

func c18Fmt(v float64) string { return strconv.FormatFloat(v, 'f', -1, 64) }

// c18Alt: alternative values for a parameter value v inside [lo, hi]: short decimals different from v.
func c18Alt(v, lo, hi float64, n int) []float64 {
	r := func(x float64) float64 { return math.Round(x*1000) / 1000 }
	cands := []float64{r(v * 0.9), r(v * 1.1), r(v + 0.1), r(v - 0.1), r((lo + hi) / 2), r(lo + (hi-lo)/4)}
	var out []float64
	for _, c := range cands {
		if c > lo && c < hi && c != v {
			dup := false
			for _, o := range out {
				dup = dup || o == c
			}
			if !dup {
				out = append(out, c)
			}
		}
		if len(out) == n {
			break
		}
	}
	return out
}

// c18BuildCases enumerates the override cases of one parameter group of a crop file.
// ok=false: the group does not exist in this file (stage beyond the file's stages).
func c18BuildCases(cp hermes.CropParam, group string, values int) (cases []c18Case, ok bool) {
	S, K := cp.NRENTW, cp.NRKOM
	stageLine := func(s, k int) int { return 19 + (s-1)*13 + k } // k: 0 headline, 1 TSUM ... 9 WGMAX, 10 PRO, 11 DEAD, 12 kc
	add := func(name string, v float64, apply func(cp *hermes.CropParam, v float64), line, col, width int, text string) {
		cases = append(cases, c18Case{name: name, args: []string{name + "=" + c18Fmt(v)}, apply: func(cp *hermes.CropParam) { apply(cp, v) }, line: line, col: col, width: width, text: text})
	}
	switch {
	case group == "base":
		type bp struct {
			name   string
			v      float64
			lo, hi float64
			set    func(cp *hermes.CropParam, v float64)
			line   int
		}
		for _, b := range []bp{
			{"MAXAMAX", cp.MAXAMAX, 0, 100, func(cp *hermes.CropParam, v float64) { cp.MAXAMAX = v }, 3},
			{"MINTMP", cp.MINTMP, -30, 50, func(cp *hermes.CropParam, v float64) { cp.MINTMP = v }, 5},
			{"WUMAXPF", cp.WUMAXPF, 0, 20, func(cp *hermes.CropParam, v float64) { cp.WUMAXPF = v }, 6},
			{"VELOC", cp.VELOC, 0, 1, func(cp *hermes.CropParam, v float64) { cp.VELOC = v }, 7},
			{"YIFAK", cp.YIFAK, 0, 1, func(cp *hermes.CropParam, v float64) { cp.YIFAK = v }, 10},
			{"INITCONCNBIOM", cp.INITCONCNBIOM, 0, 100, func(cp *hermes.CropParam, v float64) { cp.INITCONCNBIOM = v }, 11},
			{"INITCONCNROOT", cp.INITCONCNROOT, 0, 100, func(cp *hermes.CropParam, v float64) { cp.INITCONCNROOT = v }, 12},
		} {
			for _, v := range c18Alt(b.v, b.lo, b.hi, values) {
				col, txt := 65, c18Fmt(v)
				if b.name == "YIFAK" {
					col, txt = 66, strings.TrimPrefix(c18Fmt(v), "0")
				}
				add("c_"+b.name, v, b.set, b.line, col, 0, txt)
			}
		}
	case strings.HasPrefix(group, "stage:"):
		s, _ := strconv.Atoi(group[6:])
		if s > S {
			return nil, false
		}
		st := cp.CropDevelopmentStages[s-1]
		type spm struct {
			name   string
			v      float64
			lo, hi float64
			set    func(st *hermes.CropDevelopmentStage, v float64)
			k      int
		}
		for _, q := range []spm{
			{"TSUM", st.TSUM, 0, 10000, func(st *hermes.CropDevelopmentStage, v float64) { st.TSUM = v }, 1},
			{"BAS", st.BAS, -10, 40, func(st *hermes.CropDevelopmentStage, v float64) { st.BAS = v }, 2},
			{"VSCHWELL", st.VSCHWELL, 0, 100, func(st *hermes.CropDevelopmentStage, v float64) { st.VSCHWELL = v }, 3},
			{"DAYL", st.DAYL, -24, 24, func(st *hermes.CropDevelopmentStage, v float64) { st.DAYL = v }, 4},
			{"DLBAS", st.DLBAS, -24, 24, func(st *hermes.CropDevelopmentStage, v float64) { st.DLBAS = v }, 5},
			{"DRYSWELL", st.DRYSWELL, 0, 1, func(st *hermes.CropDevelopmentStage, v float64) { st.DRYSWELL = v }, 6},
			{"LUKRIT", st.LUKRIT, 0, 1, func(st *hermes.CropDevelopmentStage, v float64) { st.LUKRIT = v }, 7},
			{"LAIFKT", st.LAIFKT, 0, 100, func(st *hermes.CropDevelopmentStage, v float64) { st.LAIFKT = v }, 8},
			{"WGMAX", st.WGMAX, 0, 100, func(st *hermes.CropDevelopmentStage, v float64) { st.WGMAX = v }, 9},
			{"KC", st.Kc, 0, 3, func(st *hermes.CropDevelopmentStage, v float64) { st.Kc = v }, 12},
		} {
			q := q
			alts := c18Alt(q.v, q.lo, q.hi, values)
			if q.v != 0 && s <= 3 && (q.name == "VSCHWELL" || q.name == "DAYL" || q.name == "DRYSWELL" || q.name == "LUKRIT") {
				alts = append(alts, 0) // 0 is a valid value of these parameters (it switches the mechanism off), not "no override"
			}
			for _, v := range alts {
				add(fmt.Sprintf("c_%s_%d", q.name, s), v, func(cp *hermes.CropParam, v float64) { q.set(&cp.CropDevelopmentStages[s-1], v) }, stageLine(s, q.k), 65, 0, c18Fmt(v))
			}
		}
	case strings.HasPrefix(group, "part:"):
		s, _ := strconv.Atoi(group[5:])
		if s > S {
			return nil, false
		}
		for o := 1; o <= K; o++ {
			o := o
			st := cp.CropDevelopmentStages[s-1]
			for _, v := range c18Alt(st.PRO[o-1], 0, 1, values) {
				add(fmt.Sprintf("c_PRO_%d_%d", s, o), v, func(cp *hermes.CropParam, v float64) { cp.CropDevelopmentStages[s-1].PRO[o-1] = v }, stageLine(s, 10), 25+8*o, 5, fmt.Sprintf("%5s", c18Fmt(v)))
			}
			for _, v := range c18Alt(st.DEAD[o-1], 0, 1, values) {
				add(fmt.Sprintf("c_DEAD_%d_%d", s, o), v, func(cp *hermes.CropParam, v float64) { cp.CropDevelopmentStages[s-1].DEAD[o-1] = v }, stageLine(s, 11), 25+8*o, 5, fmt.Sprintf("%5s", c18Fmt(v)))
			}
		}
		// a partitioning shift between two organs that keeps the sum at 1
		if K >= 2 {
			st := cp.CropDevelopmentStages[s-1]
			a, b := 0, 1
			for i := range st.PRO {
				if st.PRO[i] > st.PRO[a] {
					a = i
				}
			}
			if b == a {
				b = (a + 1) % K
			}
			if st.PRO[a] >= 0.125 && st.PRO[b] <= 0.875 {
				va, vb := math.Round((st.PRO[a]-0.125)*1000)/1000, math.Round((st.PRO[b]+0.125)*1000)/1000
				cases = append(cases, c18Case{name: fmt.Sprintf("c_PRO_%d_%d+%d", s, a+1, b+1),
					args:  []string{fmt.Sprintf("c_PRO_%d_%d=%s", s, a+1, c18Fmt(va)), fmt.Sprintf("c_PRO_%d_%d=%s", s, b+1, c18Fmt(vb))},
					apply: func(cp *hermes.CropParam) { cp.CropDevelopmentStages[s-1].PRO[a], cp.CropDevelopmentStages[s-1].PRO[b] = va, vb },
					line:  -1})
			}
		}
	}
	return cases, true
}

func c18Run(raw json.RawMessage, c *mc.Ctx) {
	sp := mc.Decode[c18Spec](raw)
	yml := sp.Format == "yml"
	paramDir := filepath.Join(proj.RepoDir(), "examples", "parameter")
	cp, err := hermes.ReadCropParamFromFile(filepath.Join(paramDir, sp.File+".yml"))
	if err != nil {
		mc.HarnessError("read %s: %v", sp.File, err)
	}
	classic, err := os.ReadFile(filepath.Join(paramDir, sp.File))
	if err != nil {
		mc.HarnessError("read %s: %v", sp.File, err)
	}
	lines := strings.Split(strings.ReplaceAll(string(classic), "\r\n", "\n"), "\n")
	S, K := cp.NRENTW, cp.NRKOM
	group := sp.Group
	if group == "multi" {
		group = "base"
	}
	cases, ok := c18BuildCases(cp, group, sp.Values)
	if sp.Group == "multi" {
		more, _ := c18BuildCases(cp, "stage:1", 1)
		all := c18Case{name: "c_(all base and first-stage parameters)", line: -1}
		var applies []func(cp *hermes.CropParam)
		for _, cs := range append(cases, more...) {
			all.args = append(all.args, cs.args...)
			applies = append(applies, cs.apply)
		}
		all.apply = func(cp *hermes.CropParam) {
			for _, f := range applies {
				f(cp)
			}
		}
		cases = []c18Case{all}
	}
	if !ok {
		c.Outcome("stage beyond the file's stages")
		return
	}
	root := scratchRoot()
	defer os.RemoveAll(root)
	p, cropFile, abbrOfFile := c18Project(sp.File, yml)
	if sp.Env == 4 && abbrOfFile != "PH" {
		// the named crop is not the first crop sown: a catch crop with only three development stages grows before it
		p.Rotation = append(append([]proj.CropEntry{}, p.Rotation[:1]...), append([]proj.CropEntry{{Crop: "PH", Sow: "2001-08-20", Harvest: "2001-09-28", Rex: 0}}, p.Rotation[1:]...)...)
	}
	if sp.Env == 5 && abbrOfFile != "SM" {
		p.Rotation = append(append([]proj.CropEntry{}, p.Rotation[:1]...), append([]proj.CropEntry{{Crop: "SM", Sow: "2001-08-20", Harvest: "2001-09-28", Rex: 0}}, p.Rotation[1:]...)...)
	}
	switch sp.Env {
	case 1:
		p.Config["CO2method"], p.Config["CO2concentration"], p.Config["CO2StomataInfluence"] = "3", "550", "1"
	case 2:
		p.Config["CO2method"], p.Config["CO2concentration"], p.Config["ETpot"] = "1", "700", "2"
	case 3:
		p.Soil.RootDepth = 4
		p.Config["ETpot"] = "1"
		p.VerdColumn = true
		for i := range p.Weather {
			p.Weather[i].Verd = satDeficit(p.Weather[i])
		}
		p.Config["PotMineralisation"] = "1"
	}
	p.Write(root)
	// edited parameter folder: links to every shipped table, the crop file under test is a private copy
	edit := filepath.Join(root, "param_edit")
	os.MkdirAll(edit, 0o755)
	ents, _ := os.ReadDir(paramDir)
	for _, e := range ents {
		if e.Name() != cropFile {
			os.Symlink(filepath.Join(paramDir, e.Name()), filepath.Join(edit, e.Name()))
		}
	}
	run := func(extra ...string) (*proj.RunResult, string) {
		os.RemoveAll(filepath.Join(root, "out"))
		r := proj.Run(root, p.Args(root, extra...), nil)
		c.Trace(1)
		return r, c18Files(r)
	}
	base, baseTxt := run()
	if !base.Success || base.Panic != "" {
		c.Outcome("baseline-failed")
		c.Violate("baseline-run-failed", fmt.Sprintf("%s (%s): run on the shipped crop file failed: %s %s", sp.File, sp.Format, base.Err, base.Panic), nil)
		return
	}
	if sp.Group == "invalid" {
		bad := [][]string{{fmt.Sprintf("c_TSUM_%d=10", S+1)}, {fmt.Sprintf("c_PRO_1_%d=0.5", K+1)},
			{"c_MAXAMAX=20", "c_MINTMP=50"}, {"c_TSUM_1=500", "c_KC_2=0"}, {"c_WUMAXPF=5", fmt.Sprintf("c_BAS_%d=3", S+1)}}
		// every parameter's valid range (open ends marked): the values just outside, clearly outside and far outside on
		// both sides, and the end itself where it does not belong to the range
		type rng struct {
			name           string
			lo, hi         float64
			openLo, openHi bool
		}
		inf := math.Inf(1)
		st := 1 + len(sp.File)%S
		sfx := fmt.Sprintf("_%d", st)
		for _, q := range []rng{{"MAXAMAX", 0, 100, true, false}, {"MINTMP", -30, 50, true, true}, {"WUMAXPF", 0, 20, true, false}, {"VELOC", 0, 1, true, false},
			{"YIFAK", 0, 1, false, false}, {"INITCONCNBIOM", 0, 100, false, false}, {"INITCONCNROOT", 0, 100, false, false},
			{"TSUM" + sfx, 0, 10000, false, false}, {"BAS" + sfx, -10, 40, false, false}, {"VSCHWELL" + sfx, 0, 100, false, false}, {"DAYL" + sfx, -24, 24, false, false},
			{"DLBAS" + sfx, -24, 24, false, false}, {"DRYSWELL" + sfx, 0, 1, false, false}, {"LUKRIT" + sfx, 0, 1, false, false}, {"LAIFKT" + sfx, 0, 100, false, false},
			{"WGMAX" + sfx, 0, 100, false, false}, {"KC" + sfx, 0, inf, true, false}, {"PRO" + sfx + "_1", 0, 1, false, false}, {"DEAD" + sfx + "_1", 0, 1, false, false}} {
			span := q.hi - q.lo
			if math.IsInf(span, 0) {
				span = 1
			}
			vs := []float64{q.lo - 0.01, q.lo - span/2, q.lo - 150*span}
			if q.openLo {
				vs = append(vs, q.lo)
			}
			if !math.IsInf(q.hi, 0) {
				vs = append(vs, q.hi+0.01, q.hi+span/2, q.hi+150*span)
				if q.openHi {
					vs = append(vs, q.hi)
				}
			}
			for _, v := range vs {
				bad = append(bad, []string{"c_" + q.name + "=" + c18Fmt(math.Round(v*100)/100)})
			}
		}
		for _, a := range bad {
			if strings.Contains(a[len(a)-1], fmt.Sprintf("_%d=", S+1)) && S+1 > 9 || strings.Contains(a[0], fmt.Sprintf("_1_%d=", K+1)) && K+1 > 5 {
				continue // the argument parser itself rejects indexes above 9 / 5 (run error), not an override to reject
			}
			r, txt := run(append([]string{"CropFile=" + cropFile}, a...)...)
			c.Eval(1)
			c.Transition(1)
			h := mc.NewHasher().S(sp.File).S(sp.Format).S(strings.Join(a, " ")).Sum()
			c.State(h)
			c.NonTrivial(h)
			if !r.Success || txt != baseTxt {
				c.Violate("rejected-override-changes-results "+sp.Format, fmt.Sprintf("%s: out-of-range override %v must leave the run identical to one without overrides: %s", cropFile, a, c18Diff(baseTxt, txt, r)), nil)
			}
		}
		c.Outcome("invalid-ok")
		c.Sample(sp)
		return
	}
	for _, cs := range cases {
		// run A: override on the line
		ra, ta := run(append([]string{"CropFile=" + cropFile}, cs.args...)...)
		// run B: edited copy
		if yml {
			cp2, _ := hermes.ReadCropParamFromFile(filepath.Join(paramDir, sp.File+".yml"))
			cs.apply(&cp2)
			b, err := yaml.Marshal(cp2)
			if err != nil {
				mc.HarnessError("marshal: %v", err)
			}
			os.WriteFile(filepath.Join(edit, cropFile), b, 0o644)
		} else {
			if cs.line < 0 {
				continue // two-field edits are exercised in the YAML format only
			}
			ls := append([]string{}, lines...)
			l := ls[cs.line]
			for len(l) < cs.col+max(cs.width, len(cs.text)) {
				l += " "
			}
			if cs.width == 0 {
				l = l[:cs.col] + cs.text
			} else {
				l = l[:cs.col] + cs.text + l[cs.col+cs.width:]
			}
			ls[cs.line] = l
			os.WriteFile(filepath.Join(edit, cropFile), []byte(strings.Join(ls, "\n")), 0o644)
		}
		rb, tb := run("parameter=param_edit")
		if sp.Group == "multi" {
			for rep := 0; rep < 7 && ta == tb; rep++ {
				ra, ta = run(append([]string{"CropFile=" + cropFile}, cs.args...)...)
			}
		}
		c.Eval(1)
		c.Transition(1)
		h := mc.NewHasher().S(sp.File).S(sp.Format).S(strings.Join(cs.args, " ")).Sum()
		c.State(h)
		if ta != baseTxt {
			c.NonTrivial(h)
			c.Count("override_changes_results", 1)
		} else {
			c.Count("override_without_effect", 1)
		}
		pname := strings.Split(strings.TrimPrefix(cs.name, "c_"), "_")[0]
		switch {
		case !ra.Success || ra.Panic != "" || !rb.Success || rb.Panic != "":
			c.Violate("run-failed "+pname+" "+sp.Format, fmt.Sprintf("%s %v: override run: %s%s; edited-file run: %s%s", cropFile, cs.args, ra.Err, ra.Panic, rb.Err, rb.Panic), nil)
		case ta != tb:
			c.Violate("override-differs-from-edited-file "+pname+" "+sp.Format, fmt.Sprintf("%s %v: %s", cropFile, cs.args, c18Diff(tb, ta, ra)), nil)
		}
	}
	c.Outcome("ok " + sp.Format)
	c.Sample(map[string]interface{}{"file": sp.File, "format": sp.Format, "group": sp.Group, "cases": len(cases)})
}

// c18Files concatenates the daily, yearly and crop result files in a fixed order.
func c18Files(r *proj.RunResult) string {
	var names []string
	for n := range r.Files {
		if n[0] == 'V' || n[0] == 'Y' || n[0] == 'C' {
			names = append(names, n)
		}
	}
	sort.Strings(names)
	var b strings.Builder
	for _, n := range names {
		b.WriteString("== " + n + "\n" + r.Files[n])
	}
	return b.String()
}

// c18Diff describes the first differing line of two result texts.
func c18Diff(want, got string, r *proj.RunResult) string {
	if r != nil && !r.Success {
		return "run failed: " + r.Err + r.Panic
	}
	w, g := strings.Split(want, "\n"), strings.Split(got, "\n")
	for i := 0; i < len(w) && i < len(g); i++ {
		if w[i] != g[i] {
			return fmt.Sprintf("first difference in line %d: edited file gives %q, override gives %q", i+1, strings.TrimSpace(w[i]), strings.TrimSpace(g[i]))
		}
	}
	return fmt.Sprintf("result files differ in length (%d vs %d lines)", len(w), len(g))
}
