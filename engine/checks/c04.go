package checks

import (
	"encoding/json"
	"fmt"
	"math"
	"os"
	"path/filepath"
	"strings"
	"time"

	"github.com/zalf-rpm/Hermes2Go/hermes"
	"verif/mc"
	"verif/proj"
)

// C04 — every simulated day is driven by the weather record of exactly that date (after the documented normalisations),
// in all three layouts; an input that does not cover a simulated day must end the run with an error.
//
// Every generated record encodes its own date in every field, so a record consumed on the wrong day is visible in
// each of the seven variables the model reads.

type c04Spec struct {
	Layout   int      `json:"layout"`            // 0 multi-year CSV, 1 one file per year, 2 multi-year day-of-year
	SimStart string   `json:"sim_start"`         // first simulated day
	SimEnd   string   `json:"sim_end"`           // end date
	From     string   `json:"from"`              // first record of the series
	To       string   `json:"to"`                // last record of the series
	Gaps     []string `json:"gaps,omitempty"`    // dates without a record
	NoYear   int      `json:"no_year,omitempty"` // a whole calendar year without records (no file in layout 1)
	Sent     []string `json:"sent,omitempty"`    // "date:col" cells holding the sentinel (col: sun | verd)
	LowWind  []string `json:"low_wind,omitempty"`
	Swapped  []string `json:"swapped,omitempty"` // days whose minimum and maximum temperature are exchanged in the file
	Preco    bool     `json:"preco,omitempty"`
	Decoy    bool     `json:"decoy,omitempty"`     // layouts 0 and 2: further columns whose names begin with a known column name stand to the left of the real ones
	SentYear []string `json:"sent_year,omitempty"` // "year:col": the optional column holds the sentinel on every day of that calendar year
	Kind     string   `json:"kind"` // label of the fault class
}

const c04None = -99.9

var c04Epoch = time.Date(1990, 1, 1, 0, 0, 0, 0, time.UTC)

// c04Rec: the record of a date; all values dyadic so that every layout reads the same numbers.
func c04Rec(t time.Time) proj.Day {
	u := int(t.Sub(c04Epoch).Hours()/24 + 0.5)
	tavg := float64(u%64)*0.25 - 4
	d := proj.Day{
		Tavg: tavg, Tmin: tavg - 2 - float64((u/64)%8)*0.5, Tmax: tavg + 2 + float64((u/512)%8)*0.5,
		RH: 40 + float64(u%50), Rad: 2 + float64(u%23)*0.5, Wind: 0.75 + float64(u%16)*0.25,
		Sun: float64(u%25) * 0.5, Verd: 0.5 + float64(u%31)*0.25,
	}
	// rain on six days out of seven (so that month ends, leap days and year changes carry rain in some year)
	d.Precip = float64(u%7) * 0.5
	return d
}

func c04Days(from, to string) []time.Time {
	var out []time.Time
	for t := proj.D(from); !t.After(proj.D(to)); t = t.AddDate(0, 0, 1) {
		out = append(out, t)
	}
	return out
}

func c04Specs(tier string, seed int) []c04Spec {
	var out []c04Spec
	iso := func(y, m, d int) string { return fmt.Sprintf("%04d-%02d-%02d", y, m, d) }
	phases := []int{1995, 1996, 1999, 2003} // start years: every leap phase incl. a window over 2000
	if tier == "thorough" {
		phases = []int{1993, 1994, 1995, 1996, 1997, 1998, 1999, 2000, 2001, 2003, 2004, 2007, 2011, 2012}
	}
	for layout := 0; layout < 3; layout++ {
		for _, y := range phases {
			// ---- covered windows: 1-3 (4) years, series starting on/before the start year, ending on/after the end date
			maxw := 3
			if tier == "thorough" {
				maxw = 4
			}
			for w := 1; w <= maxw; w++ {
				for _, st := range []string{iso(y, 3, 1), iso(y, 1, 1), iso(y, 12, 31)} {
					for _, from := range []string{iso(y, 1, 1), iso(y-1, 1, 1), iso(y-2, 7, 1), iso(y, 2, 10)} {
						if layout == 1 && from[5:] != "01-01" {
							continue // a year file always starts on 1 January
						}
						if from > st {
							continue
						}
						for _, end := range []string{iso(y+w-1, 12, 31), iso(y+w-1, 8, 17)} {
							if end <= st {
								continue
							}
							to := end
							if end[5:] == "12-31" && w%2 == 0 {
								to = iso(y+w, 12, 31) // series longer than the window
							}
							out = append(out, c04Spec{Layout: layout, SimStart: st, SimEnd: end, From: from, To: to, Kind: "covered"})
						}
					}
				}
			}
			st, end := iso(y, 3, 1), iso(y+2, 6, 30)
			full := c04Spec{Layout: layout, SimStart: st, SimEnd: end, From: iso(y, 1, 1), To: iso(y+2, 12, 31)}
			with := func(f func(s *c04Spec)) {
				s := full
				f(&s)
				out = append(out, s)
			}
			if layout != 1 {
				with(func(s *c04Spec) { s.Kind = "covered extra-columns"; s.Decoy = true })
			}
			// ---- normalisations on covered input
			with(func(s *c04Spec) { s.Kind = "preco"; s.Preco = true })
			// ... with the series (and the window) ending inside each of the three years
			for k := 0; k <= 2; k++ {
				with(func(s *c04Spec) { s.Kind = "preco-series-ends-mid-year"; s.Preco = true; s.SimEnd = iso(y+k, 8, 31); s.To = iso(y+k, 10, 17) })
			}
			with(func(s *c04Spec) { s.Kind = "low-wind"; s.LowWind = []string{iso(y, 5, 5), iso(y, 12, 31), iso(y+1, 1, 1), iso(y+1, 7, 7), iso(y+2, 6, 30)} })
			with(func(s *c04Spec) { s.Kind = "minmax-swapped"; s.Swapped = []string{iso(y, 5, 6), iso(y, 12, 31), iso(y+1, 1, 1), iso(y+1, 8, 8), iso(y+2, 2, 2)} })
			for _, col := range []string{"sun", "verd"} {
				with(func(s *c04Spec) {
					s.Kind = "sentinel-" + col
					for _, d := range []string{iso(y, 5, 5), iso(y, 9, 9), iso(y+1, 2, 28), iso(y+1, 3, 2)} {
						s.Sent = append(s.Sent, d+":"+col)
					}
				})
				with(func(s *c04Spec) {
					s.Kind = "sentinel-" + col + "-year-end"
					s.Sent = []string{iso(y, 12, 31) + ":" + col, iso(y+2, 1, 1) + ":" + col}
				})
			}
			// a two-day hole in one optional column next to an isolated hole in the other one on the same day (the two-day hole
			// cannot be filled and is not judged; the isolated one must still become the mean of its neighbours)
			with(func(s *c04Spec) {
				s.Kind = "sentinel-pair-beside-single"
				s.Sent = []string{iso(y, 6, 10) + ":verd", iso(y, 6, 11) + ":verd", iso(y, 6, 10) + ":sun", iso(y+1, 4, 4) + ":verd", iso(y+1, 4, 5) + ":verd", iso(y+1, 4, 5) + ":sun",
					iso(y+1, 9, 1) + ":sun", iso(y+1, 9, 2) + ":sun", iso(y+1, 9, 2) + ":verd"}
			})
			// missing values on the last simulated day (the series goes on) and on the first one
			with(func(s *c04Spec) { s.Kind = "sentinel-on-last-simulated-day"; s.Sent = []string{end + ":sun", end + ":verd"} })
			with(func(s *c04Spec) { s.Kind = "sentinel-on-last-simulated-day"; s.SimEnd = iso(y+1, 11, 15); s.Sent = []string{iso(y+1, 11, 15) + ":sun", iso(y+1, 11, 15) + ":verd"} })
			with(func(s *c04Spec) { s.Kind = "sentinel-on-first-simulated-day"; s.Sent = []string{st + ":sun", st + ":verd"} })
			// an optional column without any value in a later calendar year (after a year that has values)
			for _, col := range []string{"sun", "verd"} {
				with(func(s *c04Spec) { s.Kind = "column-empty-in-second-year-" + col; s.SentYear = []string{fmt.Sprintf("%d:%s", y+1, col)} })
				with(func(s *c04Spec) { s.Kind = "column-empty-in-third-year-" + col; s.SentYear = []string{fmt.Sprintf("%d:%s", y+2, col)} })
			}
			// ---- inputs that do not cover every simulated day: the run must end with an error
			with(func(s *c04Spec) { s.Kind = "uncovered series-ends-before-end-date same-year"; s.To = iso(y+2, 6, 29) })
			with(func(s *c04Spec) { s.Kind = "uncovered series-ends-before-end-date same-year"; s.To = iso(y+2, 3, 3) })
			with(func(s *c04Spec) { s.Kind = "uncovered series-ends-in-earlier-year"; s.To = iso(y+1, 12, 31) })
			with(func(s *c04Spec) { s.Kind = "uncovered series-ends-in-earlier-year"; s.To = iso(y+1, 12, 30) })
			with(func(s *c04Spec) { s.Kind = "uncovered series-ends-in-earlier-year"; s.To = iso(y+1, 5, 5) })
			if layout != 1 {
				with(func(s *c04Spec) { s.Kind = "uncovered series-starts-after-simulation-start"; s.From = iso(y, 3, 2) })
				with(func(s *c04Spec) { s.Kind = "uncovered series-starts-after-simulation-start"; s.From = iso(y, 6, 1) })
				with(func(s *c04Spec) { s.Kind = "uncovered series-starts-after-simulation-start"; s.From = iso(y+1, 1, 1) })
			}
			for _, g := range []string{iso(y, 7, 15), iso(y+1, 2, 28), iso(y+1, 3, 1), iso(y, 12, 30), iso(y, 12, 31), iso(y+1, 1, 1), iso(y+1, 12, 31), iso(y+2, 1, 1), iso(y+2, 1, 2)} {
				with(func(s *c04Spec) {
					s.Gaps = []string{g}
					switch g[5:] {
					case "12-31":
						s.Kind = "uncovered gap-at-31-december"
					case "01-01":
						s.Kind = "uncovered gap-at-1-january"
					default:
						s.Kind = "uncovered gap-inside-year"
					}
				})
			}
			with(func(s *c04Spec) { s.Kind = "uncovered gap-30-and-31-december"; s.Gaps = []string{iso(y, 12, 30), iso(y, 12, 31)} })
			with(func(s *c04Spec) { s.Kind = "uncovered gap-31-december-and-1-january"; s.Gaps = []string{iso(y+1, 12, 31), iso(y+2, 1, 1)} })
			with(func(s *c04Spec) { s.Kind = "uncovered whole-year-missing"; s.NoYear = y + 1 })
			with(func(s *c04Spec) { s.Kind = "uncovered whole-year-missing"; s.NoYear = y + 2 })
			// the window ends inside the missing year (later years are present in the series)
			with(func(s *c04Spec) { s.Kind = "uncovered whole-year-missing"; s.NoYear = y + 1; s.SimEnd = iso(y+1, 6, 30) })
			with(func(s *c04Spec) { s.Kind = "uncovered whole-year-missing"; s.NoYear = y + 1; s.SimEnd = iso(y+1, 12, 31); s.To = iso(y+3, 12, 31) })
			// windows ending inside / right after the other non-covered stretches
			with(func(s *c04Spec) { s.Kind = "uncovered gap-at-31-december"; s.Gaps = []string{iso(y+1, 12, 31)}; s.SimEnd = iso(y+2, 1, 1) })
			with(func(s *c04Spec) { s.Kind = "uncovered gap-at-31-december"; s.Gaps = []string{iso(y+1, 12, 31)}; s.SimEnd = iso(y+1, 12, 31) })
			with(func(s *c04Spec) { s.Kind = "uncovered gap-at-1-january"; s.Gaps = []string{iso(y+1, 1, 1)}; s.SimEnd = iso(y+1, 1, 1) })
			with(func(s *c04Spec) { s.Kind = "uncovered gap-inside-year"; s.Gaps = []string{iso(y+1, 7, 15)}; s.SimEnd = iso(y+1, 7, 15) })
			with(func(s *c04Spec) { s.Kind = "uncovered series-ends-before-end-date same-year"; s.To = iso(y+1, 7, 14); s.SimEnd = iso(y+1, 7, 15) })
		}
	}
	// use of the records: one field of one record changed, nothing may change before that day (three days x nine fields
	// x weather layouts x ET methods x bare soil / standing crop)
	for layout := 0; layout <= 2; layout++ {
		for et := 1; et <= 5; et++ {
			if et == 5 && layout != 1 {
				continue // the reference ET column exists in the one-file-per-year layout only
			}
			for crop := 0; crop <= 1; crop++ {
				out = append(out, c04Spec{Kind: "perturb", Layout: 10*layout + et - 1, NoYear: crop})
			}
		}
	}
	return out
}

func init() {
	mc.Register(&mc.Check{
		ID:        "C04",
		Technique: "exhaustive enumeration of weather-series shapes (start/end position classes, gap position classes, sentinel and low-wind positions, precipitation correction) x three layouts x leap phases x simulation windows through complete real runs; the seven weather variables the model reads are compared on every simulated day with the date-encoding record of that calendar date",
		Rule: "scenario = (layout, first/last simulated day, first/last record, missing dates, missing year, sentinel cells, low-wind days, correction on/off); covered scenarios: on every simulated date the values consumed must equal the record of that date after mm->cm x monthly factor, PAR = global/2, wind floor 0.5, isolated sentinel = mean of the two adjacent dates; uncovered scenarios: the run must not report success; " +
			"state = (date, consumed record); non-trivial = a day after a year change, a leap day, or a day with a normalisation applied",
		Assumptions: []string{"every record encodes its date in all fields (dyadic values, distinct for adjacent days and for equal days of adjacent years)", "optional columns with sentinels: sunshine hours and saturation deficit; a sentinel on the first or last record of a file has no two neighbours and is not judged",
			"layout 2 derives the mean temperature from min/max; layout 1 files always start on 1 January"},
		Bound: func(t string) string {
			if t == "quick" {
				return "3 layouts x 4 start years (all leap phases, window over 2000) x {windows of 1-3 years x 3 start days x 4 series starts x 2 end days; 7 normalisation cases; 31 non-covering shapes}"
			}
			return "3 layouts x 14 start years x {windows of 1-4 years x 3 start days x 4 series starts x 2 end days; 7 normalisation cases; 31 non-covering shapes}"
		},
		Budget: func(t string) time.Duration {
			if t == "quick" {
				return 150 * time.Second
			}
			return 30 * time.Minute
		},
		Scenarios: func(tier string, seed int) []json.RawMessage { return mc.Specs(c04Specs(tier, seed)) },
		Run:       c04Run,
		OnCrash: func(spec json.RawMessage, tail string) (string, string, bool) {
			sp := mc.Decode[c04Spec](spec)
			if strings.HasPrefix(sp.Kind, "uncovered") {
				// the process stopped with a fatal error: not a silent reuse of other days (that the failure takes the whole process down is judged by C11)
				return "", "", false
			}
			return fmt.Sprintf("crash-on-covered-input layout=%d", sp.Layout), "process died on a weather input that covers every simulated day: " + tail[max(0, len(tail)-300):], true
		},
	})
}

// c04Write renders the series in the spec's layout.
func c04Write(root string, sp c04Spec, p *proj.Project) {
	dir := filepath.Join(root, "weather", "w")
	os.MkdirAll(dir, 0o755)
	gap := map[string]bool{}
	for _, g := range sp.Gaps {
		gap[g] = true
	}
	sent := map[string]bool{}
	for _, s := range sp.Sent {
		sent[s] = true
	}
	low := map[string]bool{}
	for _, s := range sp.LowWind {
		low[s] = true
	}
	swapped := map[string]bool{}
	for _, s := range sp.Swapped {
		swapped[s] = true
	}
	sentYear := map[string]bool{}
	for _, s := range sp.SentYear {
		sentYear[s] = true
	}
	val := func(t time.Time) (proj.Day, bool) {
		k := t.Format("2006-01-02")
		if gap[k] || t.Year() == sp.NoYear {
			return proj.Day{}, false
		}
		d := c04Rec(t)
		if low[k] {
			d.Wind = 0.125
		}
		if swapped[k] {
			d.Tmin, d.Tmax = d.Tmax, d.Tmin
		}
		if sent[k+":sun"] {
			d.Sun = c04None
		}
		if sent[k+":verd"] || sentYear[fmt.Sprintf("%d:verd", t.Year())] {
			d.Verd = c04None
		}
		if sentYear[fmt.Sprintf("%d:sun", t.Year())] {
			d.Sun = c04None
		}
		return d, true
	}
	days := c04Days(sp.From, sp.To)
	switch sp.Layout {
	case 0:
		var b strings.Builder
		if sp.Decoy {
			b.WriteString("iso-date,tmin_soil,tmin,tavg_5cm,tavg,tmax_soil,tmax,precip_corr,precip,globrad_net,globrad,wind_gust,wind,relhumid_tmin,relhumid,sunhours_max,sunhours,verd_9h,verd\n-,C,C,C,C,C,C,mm,mm,MJ,MJ,m/s,m/s,%,%,h,h,mmHg,mmHg\n")
		} else {
			b.WriteString("iso-date,tmin,tavg,tmax,precip,globrad,wind,relhumid,sunhours,verd\n-,C,C,C,mm,MJ,m/s,%,h,mmHg\n")
		}
		for _, t := range days {
			if d, ok := val(t); ok {
				if sp.Decoy {
					x := func(v float64) float64 { return v/2 + 3 } // a plausible but different number
					fmt.Fprintf(&b, "%s,%g,%g,%g,%g,%g,%g,%g,%g,%g,%g,%g,%g,%g,%g,%g,%g,%g,%g\n", t.Format("2006-01-02"), x(d.Tmin), d.Tmin, x(d.Tavg), d.Tavg, x(d.Tmax), d.Tmax, x(d.Precip), d.Precip, x(d.Rad), d.Rad, x(d.Wind), d.Wind, x(d.RH), d.RH, x(d.Sun), d.Sun, x(d.Verd), d.Verd)
				} else {
					fmt.Fprintf(&b, "%s,%g,%g,%g,%g,%g,%g,%g,%g,%g\n", t.Format("2006-01-02"), d.Tmin, d.Tavg, d.Tmax, d.Precip, d.Rad, d.Wind, d.RH, d.Sun, d.Verd)
				}
			}
		}
		os.WriteFile(filepath.Join(dir, "W.csv"), []byte(b.String()), 0o644)
	case 2:
		var b strings.Builder
		if sp.Decoy {
			b.WriteString("@YYYYJJJ TMIN_S TMIN TMAX_S TMAX RAD_N RAD PREC_C PREC WIND_G WIND RH_MIN RH SUNH_X SUNH VERD_9 VERD\n")
		} else {
			b.WriteString("@YYYYJJJ TMIN TMAX RAD PREC WIND RH SUNH VERD\n")
		}
		for _, t := range days {
			if d, ok := val(t); ok {
				if sp.Decoy {
					x := func(v float64) float64 { return v/2 + 3 }
					fmt.Fprintf(&b, "%04d%03d %g %g %g %g %g %g %g %g %g %g %g %g %g %g %g %g\n", t.Year(), t.YearDay(), x(d.Tmin), d.Tmin, x(d.Tmax), d.Tmax, x(d.Rad), d.Rad, x(d.Precip), d.Precip, x(d.Wind), d.Wind, x(d.RH), d.RH, x(d.Sun), d.Sun, x(d.Verd), d.Verd)
				} else {
					fmt.Fprintf(&b, "%04d%03d %g %g %g %g %g %g %g %g\n", t.Year(), t.YearDay(), d.Tmin, d.Tmax, d.Rad, d.Precip, d.Wind, d.RH, d.Sun, d.Verd)
				}
			}
		}
		os.WriteFile(filepath.Join(dir, "W.csv"), []byte(b.String()), 0o644)
	case 1:
		bufs := map[int]*strings.Builder{}
		for _, t := range days {
			d, ok := val(t)
			if !ok {
				continue
			}
			b := bufs[t.Year()]
			if b == nil {
				b = &strings.Builder{}
				b.WriteString("tavg;tmin;tmax;ET0;relhumid;vapp14;wind;sundu;globrad;precip;jday\nC;C;C;mm;%;mmHg;m/s;h;MJ;mm;\n")
				bufs[t.Year()] = b
			}
			fmt.Fprintf(b, "%g;%g;%g;%g;%g;%g;%g;%g;%g;%g;%d\n", d.Tavg, d.Tmin, d.Tmax, c04None, d.RH, d.Verd, d.Wind, d.Sun, d.Rad, d.Precip, t.YearDay())
		}
		for y, b := range bufs {
			os.WriteFile(filepath.Join(dir, "W."+proj.YearExt(y)), []byte(b.String()), 0o644)
		}
	}
	if sp.Preco {
		os.WriteFile(filepath.Join(dir, "preco.txt"), []byte("Mo Corr\n 1 1.25\n 2 1.50\n 3 1.12\n 4 1.06\n 5 1.03\n 6 1.00\n 7 0.75\n 8 1.75\n 9 1.37\n10 1.62\n11 1.87\n12 2.00\n"), 0o644)
	}
}

var c04Preco = [12]float64{1.25, 1.50, 1.12, 1.06, 1.03, 1.00, 0.75, 1.75, 1.37, 1.62, 1.87, 2.00}

func c04Run(raw json.RawMessage, c *mc.Ctx) {
	sp := mc.Decode[c04Spec](raw)
	if sp.Kind == "perturb" {
		c04PerturbRun(sp, c)
		return
	}
	root := scratchRoot()
	defer os.RemoveAll(root)
	b := e1Base{Soil: "sand20", GW: 99, InitW: 0.5, InitN: 10, ET: 3, Start: sp.SimStart}
	p := e1Project(b, 10)
	p.Config["EndDate"] = proj.DateStr("DateDElong", proj.D(sp.SimEnd))
	p.Config["AnnualOutputDate"] = "0102"
	p.Layout = sp.Layout
	p.Weather = nil // written below
	if sp.Preco {
		p.Config["CorrectionPrecipitation"] = "1"
	}
	p.Write(root)
	c04Write(root, sp, p)
	label := fmt.Sprintf("layout %d %s: simulated %s..%s, series %s..%s gaps %v missing year %d", sp.Layout, sp.Kind, sp.SimStart, sp.SimEnd, sp.From, sp.To, sp.Gaps, sp.NoYear)
	cls := fmt.Sprintf(" layout=%d", sp.Layout)
	gap := map[string]bool{}
	for _, g := range sp.Gaps {
		gap[g] = true
	}
	has := func(t time.Time) bool {
		k := t.Format("2006-01-02")
		return !(k < sp.From || k > sp.To || gap[k] || t.Year() == sp.NoYear)
	}
	sent := map[string]bool{}
	for _, s := range sp.Sent {
		sent[s] = true
	}
	low := map[string]bool{}
	for _, s := range sp.LowWind {
		low[s] = true
	}
	swappedDay := map[string]bool{}
	for _, s := range sp.Swapped {
		swappedDay[s] = true
	}
	sentYearRun := map[string]bool{}
	for _, s := range sp.SentYear {
		sentYearRun[s] = true
	}
	covered := !strings.HasPrefix(sp.Kind, "uncovered")
	days := 0
	var firstBad string
	pr := &hermes.VerifProbe{AfterEvatra: func(g *hermes.GlobalVarsMain, zeit int, w *hermes.WaterSharedVars) {
		t := proj.FromZEIT(zeit)
		k := t.Format("2006-01-02")
		days++
		c.Transition(1)
		i := g.TAG.Index
		h := mc.NewHasher().I(zeit).F(g.TEMP[i]).F(g.TMIN[i]).F(g.RAD[i]).F(g.WIND[i]).I(sp.Layout)
		c.State(h.Sum())
		if t.YearDay() <= 2 || (t.Month() == 2 && t.Day() >= 28) || (t.Month() == 3 && t.Day() == 1) || low[k] || sp.Preco || sent[k+":sun"] || sent[k+":verd"] {
			c.NonTrivial(h.Sum())
		}
		if !has(t) {
			return // judged by the run result (must be an error)
		}
		if !covered {
			return
		}
		d := c04Rec(t)
		if sp.Layout == 2 {
			d.Tavg = (d.Tmin + d.Tmax) / 2
		}
		cor := 1.0
		if sp.Preco {
			cor = c04Preco[int(t.Month())-1]
		}
		wind := d.Wind
		if low[k] {
			wind = 0.5
		}
		type cmp struct {
			name      string
			got, want float64
		}
		cs := []cmp{{"mean temperature", g.TEMP[i], d.Tavg}, {"minimum temperature", g.TMIN[i], d.Tmin}, {"maximum temperature", g.TMAX[i], d.Tmax}, {"relative humidity", g.RH[i], d.RH},
			{"radiation (PAR)", g.RAD[i], d.Rad / 2}, {"precipitation (cm)", g.REGEN[i], d.Precip / 10 * cor}}
		for _, x := range cs {
			c.Eval(1)
			if swappedDay[k] && (x.name == "minimum temperature" || x.name == "maximum temperature") {
				// the file has minimum and maximum exchanged on this day: the model may take them as given or put them right
				if x.got == d.Tmin || x.got == d.Tmax {
					continue
				}
			}
			if math.Abs(x.got-x.want) > 1e-12*(1+math.Abs(x.want)) {
				if firstBad == "" {
					firstBad = k
				}
				what := "wrong-record"
				if x.name == "precipitation (cm)" && sp.Preco {
					what = "precipitation-correction"
				}
				c.Violate(what+cls, fmt.Sprintf("%s: on %s the model consumed %s = %.10g, the record of that date gives %.10g", label, k, x.name, x.got, x.want), nil)
			}
		}
		c.Eval(1)
		if math.Abs(g.WIND[i]-wind) > 1e-12 {
			w := "wrong-record"
			if low[k] {
				w = "wind-floor-not-applied"
			}
			c.Violate(w+cls, fmt.Sprintf("%s: on %s the model consumed wind = %.10g, expected %.10g (record %.10g, floor 0.5)", label, k, g.WIND[i], wind, d.Wind), nil)
		}
		// optional columns: sunshine hours and saturation deficit; an isolated sentinel is the mean of the adjacent dates
		for _, col := range []string{"sun", "verd"} {
			got := g.SUND[i]
			rec := func(t time.Time) float64 { return c04Rec(t).Sun }
			if col == "verd" {
				got = g.VERD[i]
				rec = func(t time.Time) float64 { return c04Rec(t).Verd }
			}
			want := rec(t)
			what := "wrong-record"
			if sentYearRun[fmt.Sprintf("%d:%s", t.Year(), col)] {
				// no value at all in this calendar year: whatever stands in for it, it must not be the record of the same
				// day of an earlier year (or of any other date of the series)
				c.Eval(1)
				c.NonTrivial(h.I(7).Sum())
				for back := 1; back <= 2; back++ {
					if o := t.AddDate(-back, 0, 0); has(o) && !sentYearRun[fmt.Sprintf("%d:%s", o.Year(), col)] && got != 0 {
						for _, shift := range []int{-1, 0, 1} { // same date or same day of the year
							if got == rec(o.AddDate(0, 0, shift)) {
								c.Violate("stale-value-of-an-earlier-year "+col+cls, fmt.Sprintf("%s: on %s the column %s has no value in the whole year, the model consumed %.10g = the record of %s", label, k, col, got, o.AddDate(0, 0, shift).Format("2006-01-02")), nil)
							}
						}
					}
				}
				continue
			}
			if sent[k+":"+col] {
				p, n := t.AddDate(0, 0, -1), t.AddDate(0, 0, 1)
				if !has(p) || !has(n) {
					continue
				}
				if sent[p.Format("2006-01-02")+":"+col] || sent[n.Format("2006-01-02")+":"+col] {
					continue // a hole of two or more days has no measured neighbours: not judged
				}
				want = (rec(p) + rec(n)) / 2
				what = "sentinel-not-mean-of-adjacent-days"
				if t.YearDay() == 1 || n.YearDay() == 1 {
					what += " at-year-change"
				}
			}
			c.Eval(1)
			if math.Abs(got-want) > 1e-12*(1+math.Abs(want)) {
				c.Violate(what+" "+col+cls, fmt.Sprintf("%s: on %s the model consumed %s = %.10g, expected %.10g", label, k, col, got, want), nil)
			}
		}
	}}
	res := proj.Run(root, p.Args(root), pr)
	c.Trace(1)
	if covered {
		want := len(c04Days(sp.SimStart, sp.SimEnd))
		if !res.Success || res.Panic != "" {
			c.Outcome("covered-run-failed")
			c.Violate("run-error-on-covered-input"+cls, fmt.Sprintf("%s: run failed although every simulated day has a record: %s %s", label, res.Err, res.Panic), nil)
			return
		}
		if days != want {
			c.Violate("simulated-day-count"+cls, fmt.Sprintf("%s: %d days simulated, the period has %d", label, days, want), nil)
		}
		c.Outcome("covered-ok " + sp.Kind)
	} else {
		if res.Success {
			c.Outcome("uncovered-run-succeeded")
			c.Violate("no-error "+sp.Kind+cls, fmt.Sprintf("%s: the run reported success although the input has no record for some simulated day", label), nil)
		} else {
			c.Outcome("uncovered-run-ended-with-error")
		}
	}
	c.Sample(sp)
}
