package checks

import (
	"fmt"
	"os"
	"strings"
	"time"

	"github.com/zalf-rpm/Hermes2Go/hermes"
	"verif/mc"
	"verif/proj"
)

// C11, reported-error classes as input spaces: for each class the inputs around the class boundary are enumerated and
// every run must report the error exactly when the input is clearly inside the class (and must succeed when it is
// clearly outside); boundary inputs (tillage on the sowing or harvest day, texture sums 91..109) are not judged.

type c11ClsSpec struct {
	Class string `json:"class"` // till | year | texsum
	First int    `json:"first"` // till: index of the first tillage anchor
	PTF   int    `json:"ptf,omitempty"`
	Year  int    `json:"year,omitempty"`  // startday: every first simulated day of this month ...
	Month int    `json:"month,omitempty"` // ... of this year
}

// two crops: spring wheat 2001, winter wheat 2001/02
var c11ClsCrops = [][2]string{{"2001-03-25", "2001-08-10"}, {"2001-10-05", "2002-07-25"}}

func c11ClsAnchors() []string {
	var a []string
	add := func(iso string, offs ...int) {
		for _, o := range offs {
			a = append(a, isoAdd(iso, o))
		}
	}
	add(c11ClsCrops[0][0], -3, -1, 0, 1, 2, 60)
	add(c11ClsCrops[0][1], -1, 0, 1, 3, 20)
	add(c11ClsCrops[1][0], -1, 0, 1, 100)
	add(c11ClsCrops[1][1], -1, 0, 1)
	return a
}

func c11ClsSpecs() []c11ClsSpec {
	var out []c11ClsSpec
	for i := range c11ClsAnchors() {
		out = append(out, c11ClsSpec{Class: "till", First: i})
	}
	out = append(out, c11ClsSpec{Class: "year"})
	// the start-year rule on every first simulated day of a leap year, a common year and a year late in the calendar range
	for _, y := range []int{1996, 2003, 2044} {
		for m := 1; m <= 12; m++ {
			out = append(out, c11ClsSpec{Class: "startday", Year: y, Month: m})
		}
	}
	for ptf := 1; ptf <= 4; ptf++ {
		out = append(out, c11ClsSpec{Class: "texsum", PTF: ptf})
	}
	// runs that fill the event tables of a run far beyond what a few years reach: decades of automatic irrigation in
	// small doses (more than 1200 irrigation events in one run), on two soils
	out = append(out, c11ClsSpec{Class: "capacity", First: 0}, c11ClsSpec{Class: "capacity", First: 1})
	return out
}

func c11ClsProject(days int) *proj.Project {
	b := e1Base{Soil: "loam12", GW: 99, InitW: 0.6, InitN: 30, ET: 3, Start: "2001-03-01"}
	p := e1Project(b, days)
	p.Rotation = append(p.Rotation[:1], proj.CropEntry{Crop: "SW", Sow: c11ClsCrops[0][0], Harvest: c11ClsCrops[0][1], Rex: 50}, proj.CropEntry{Crop: "WW", Sow: c11ClsCrops[1][0], Harvest: c11ClsCrops[1][1]})
	p.Weather = seasonWeather(proj.D(p.WeatherStart), days+10)
	return p
}

func c11ClsRun(sp c11ClsSpec, c *mc.Ctx) {
	root := scratchRoot()
	defer os.RemoveAll(root)
	judge := func(label string, mustFail, mustSucceed bool, r *proj.RunResult) {
		c.Trace(1)
		c.Transition(1)
		c.Eval(1)
		h := mc.NewHasher().S("cls").S(sp.Class).S(label).Sum()
		c.State(h)
		if mustFail {
			c.NonTrivial(h)
		}
		if r.Panic != "" {
			c.Violate("run-panics "+sp.Class, fmt.Sprintf("%s: the run panicked instead of ending with success or a run error: %s", label, tailStr(r.Panic, 300)), nil)
			return
		}
		switch {
		case mustFail && r.Success:
			c.Violate("input-error-not-reported "+sp.Class, fmt.Sprintf("%s: the run reported success, but the input is in the error class and must fail this line", label), nil)
		case mustFail && strings.TrimSpace(r.Err) == "":
			c.Violate("run-error-without-message "+sp.Class, fmt.Sprintf("%s: the run failed without an error message", label), nil)
		case mustSucceed && !r.Success:
			c.Violate("valid-input-fails "+sp.Class, fmt.Sprintf("%s: valid input, but the run failed: %s", label, tailStr(r.Err, 300)), nil)
		case mustFail:
			c.Outcome("cls-" + sp.Class + "-error-reported")
		case mustSucceed:
			c.Outcome("cls-" + sp.Class + "-ok")
		default:
			c.Outcome("cls-" + sp.Class + "-boundary-not-judged")
		}
	}
	switch sp.Class {
	case "till":
		anch := c11ClsAnchors()
		p := c11ClsProject(540)
		p.Write(root)
		var lists [][]int
		for j := sp.First + 1; j <= len(anch); j++ {
			if j == len(anch) {
				lists = append(lists, []int{sp.First})
				break
			}
			lists = append(lists, []int{sp.First, j})
			for k := j + 1; k < len(anch); k++ {
				lists = append(lists, []int{sp.First, j, k})
			}
		}
		for _, l := range lists {
			var tills []proj.Till
			var dates []string
			inside, allowed := false, true
			for n, i := range l {
				d := anch[i]
				tills = append(tills, proj.Till{Date: d, Depth: 10 + 5*n, Typ: 1 + n%2})
				dates = append(dates, d)
				for _, cr := range c11ClsCrops {
					if d > cr[0] && d < cr[1] {
						inside = true
					}
					if d >= cr[0] && d <= cr[1] {
						allowed = false
					}
				}
			}
			q := *p
			q.Till = tills
			q.Write(root)
			r := proj.Run(root, q.Args(root), nil)
			judge(fmt.Sprintf("tillage dates %v (crops sown/harvested %v)", dates, c11ClsCrops), inside, allowed, r)
			if len(tills) > 1 {
				// the same list in a file that lists another field's event behind the first one (two blocks)
				q.MgmtSplit = true
				q.Write(root)
				r = proj.Run(root, q.Args(root), nil)
				judge(fmt.Sprintf("tillage dates %v in two blocks of the tillage file (crops sown/harvested %v)", dates, c11ClsCrops), inside, allowed, r)
			}
		}
	case "year":
		p := c11ClsProject(200)
		p.Write(root)
		for off := -3; off <= 3; off++ {
			r := proj.Run(root, p.Args(root, fmt.Sprintf("StartYear=%d", 2001+off)), nil)
			judge(fmt.Sprintf("StartYear=%d with the first harvest in 2001", 2001+off), off != 0, off == 0, r)
		}
	case "startday":
		for d := time.Date(sp.Year, time.Month(sp.Month), 1, 0, 0, 0, 0, time.UTC); int(d.Month()) == sp.Month; d = d.AddDate(0, 0, 1) {
			iso := d.Format("2006-01-02")
			p := e1Project(e1Base{Soil: "loam12", GW: 99, InitW: 0.6, InitN: 30, ET: 3, Start: iso}, 6)
			p.Weather = seasonWeather(proj.D(p.WeatherStart), 20)
			p.Write(root)
			for off := -1; off <= 1; off++ {
				r := proj.Run(root, p.Args(root, fmt.Sprintf("StartYear=%d", sp.Year+off)), nil)
				judge(fmt.Sprintf("first harvest (first simulated day) %s with StartYear=%d", iso, sp.Year+off), off != 0, off == 0, r)
			}
		}
	case "capacity":
		years := 19
		b := e1Base{Soil: []string{"sand20", "loam12"}[sp.First%2], GW: 99, InitW: 0.7, InitN: 40, ET: 3, Start: "2001-03-01"}
		p := e1Project(b, 365*years+10)
		p.Rotation = p.Rotation[:1]
		for y := 0; y < years; y++ {
			p.Rotation = append(p.Rotation, proj.CropEntry{Crop: "SM", Sow: fmt.Sprintf("%d-04-20", 2001+y), Harvest: fmt.Sprintf("%d-10-05", 2001+y), Rex: 50})
		}
		p.Rotation = append(p.Rotation, proj.CropEntry{Crop: "WW", Sow: fmt.Sprintf("%d-10-20", 2001+years), Harvest: fmt.Sprintf("%d-07-30", 2002+years)})
		// drip-like automatic irrigation: every stage, whenever the soil is below 90 % of its capacity, at most 6 mm a day
		p.Automan = "crp Sow1 Sow2 har2 TSmin Smomin Smomax Hmomin Hmomax Rainav Rainact TACCU Tbase Irrdv1 Irrdv2 Ndem1 Ndem2 Ndem3 stage1 stage 2 stage 3 Twindow orgF  amount appdat Irrlow irrdep irrmax\n" +
			c16Row(c16Crop{"SM", "", "", "1004", "1505", "3110", 0}, 8) + "\n" + c16Row(c16Crop{"WW", "", "", "2009", "2510", "1508", 0}, 8) + "\n"
		p.Config["AutoIrrigation"] = "1"
		w := seasonWeather(proj.D(p.WeatherStart), 365*years+30)
		for i := range w {
			w[i].Precip = 0
			if i%30 == 0 {
				w[i].Precip = 8
			}
		}
		p.Weather = w
		p.Write(root)
		irrDays := 0
		r := proj.Run(root, p.Args(root), &hermes.VerifProbe{AfterEvatra: func(g *hermes.GlobalVarsMain, zeit int, ws *hermes.WaterSharedVars) {
			if g.EffectiveIRRIG > 0 {
				irrDays++
			}
		}})
		judge(fmt.Sprintf("%d years of silage maize on %s under automatic irrigation in doses of at most 6 mm (%d irrigated days)", years, b.Soil, irrDays), false, true, r)
		if irrDays > 1250 {
			c.Count("capacity_runs_with_more_than_1250_irrigation_events", 1)
		} else {
			c.Outcome("cls-capacity-fewer-events-than-intended")
		}
	case "texsum":
		for _, sum := range []int{60, 80, 90, 94, 96, 97, 99, 100, 101, 103, 104, 106, 110, 120, 150} {
			for _, horizon := range []int{0, 1} {
				p := c11ClsProject(60)
				hs := []proj.Horizon{{Tex: "SL3", Lower: 3, BD: 3, Corg: 1, CN: 10, PS: 45, Sand: 50, Silt: 30, Clay: 20}, {Tex: "SL4", Lower: 12, BD: 3, Corg: 0.4, CN: 10, PS: 42, Sand: 40, Silt: 35, Clay: 25}}
				hs[horizon].Sand += sum - 100
				if hs[horizon].Sand < 0 {
					continue
				}
				p.Soil.Hor = hs
				p.Config["PTF"] = fmt.Sprint(sp.PTF)
				p.Write(root)
				r := proj.Run(root, p.Args(root), nil)
				judge(fmt.Sprintf("pedotransfer function %d, horizon %d with sand+silt+clay = %d %%", sp.PTF, horizon+1, sum), sum <= 90 || sum >= 110, sum == 100, r)
			}
		}
	}
}
