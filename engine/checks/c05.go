package checks

import (
	"path/filepath"
	"encoding/json"
	"fmt"
	"os"
	"strings"
	"time"
	"unicode/utf8"

	"verif/mc"
	"verif/proj"
)

// C05 — output records: one per day (multiples of k), per year (annual output date) and per harvested crop, complete,
// in order, with exactly as many fields as configured columns. Judged on the public result files against Go's calendar.

type c05Spec struct {
	Start  string `json:"start"`  // harvest date of the initial crop = first simulated day
	Len    int    `json:"len"`    // end date = start + len days
	Annual string `json:"annual"` // ddmm, or "end", "end+1", "end-1"
	K      int    `json:"k"`
	Style  int    `json:"style"` // 0 fixed width, 1 CSV
	Fmt    string `json:"fmt"`
	Cols   int    `json:"cols"` // 0 = date only, 1 = every supported variable kind
	Rot    int    `json:"rot"`  // 0 = no crop, 1..3 rotation variants
	Text   bool   `json:"text,omitempty"` // numerically unstable N transport: the text-valued status variables get filled
	Reuse  bool   `json:"reuse,omitempty"` // files on disk (the library's own writer) in a result folder that holds a longer earlier run
	Lead   int    `json:"lead,omitempty"`  // number of leading columns bound to text variables that stay empty (in all three files)
	Sep    string `json:"sep,omitempty"`   // separator character of the CSV style ("" = comma)
	Fill   string `json:"fill,omitempty"`  // fill character of the fixed-width style ("" = blank)
}

var c05Starts = []string{"2003-12-30", "2003-12-31", "2004-01-01", "2004-02-27", "2004-02-28", "2004-02-29", "2004-03-01", "2003-02-28", "2003-03-01", "2004-06-15", "2001-09-29"}
var c05Lens = []int{1, 2, 3, 30, 59, 60, 61, 365, 366, 367, 731, 1100}
var c05Annuals = []string{"0101", "2802", "0103", "3009", "3112", "end", "end+1", "end-1"}

func c05Specs(tier string, seed int) []c05Spec {
	var out []c05Spec
	i := 0
	starts, lens := c05Starts, c05Lens
	if tier == "thorough" {
		// every day of the two weeks around the year change and the leap day, monthly elsewhere
		starts = nil
		for d := -7; d <= 7; d++ {
			starts = append(starts, isoAdd("2003-12-31", d), isoAdd("2004-02-29", d), isoAdd("2003-02-28", d))
		}
		for m := 1; m <= 12; m++ {
			starts = append(starts, fmt.Sprintf("2001-%02d-15", m))
		}
		lens = append(append([]int{}, c05Lens...), 7, 14, 28, 29, 31, 90, 180, 364, 368, 730, 732, 1095, 1096, 1461)
	}
	for _, s := range starts {
		for _, l := range lens {
			for _, a := range c05Annuals {
				for _, k := range []int{1, 2, 7, 30} {
					for style := 0; style < 2; style++ {
						i++
						sp := c05Spec{Start: s, Len: l, Annual: a, K: k, Style: style, Fmt: "DateDElong", Cols: i % 2}
						if i%7 == 0 {
							sp.Fmt = []string{"DateENlong", "DateDEshort", "DateENshort"}[(i/7)%3]
						}
						// separator and fill characters rotate (ASCII and beyond)
						if i%5 == 0 {
							sp.Sep = []string{";", "\t", "¦", "|", "§", "€"}[(i/5)%6]
							sp.Fill = []string{"_", "·", ".", "°"}[(i/5)%4]
						}
						out = append(out, sp)
					}
				}
			}
		}
	}
	// the turn of the century (two-digit years wrap from 99 to 00) and the ends of the supported calendar range, in all
	// four date formats
	for _, s := range []string{"1999-12-30", "1999-12-31", "2000-01-01", "2000-02-28", "2000-12-30", "1998-06-15", "1949-12-30", "2049-12-30", "2098-12-29", "1901-03-01"} {
		for _, l := range []int{2, 3, 62, 367, 800} {
			if s == "2098-12-29" && l > 367 {
				continue
			}
			for _, a := range []string{"0101", "3112", "end"} {
				for _, k := range []int{1, 7} {
					for style := 0; style < 2; style++ {
						for _, f := range []string{"DateDElong", "DateENlong", "DateDEshort", "DateENshort"} {
							if (s == "2098-12-29" || s == "1901-03-01" || s == "1949-12-30" || s == "2049-12-30") && strings.HasSuffix(f, "short") {
								continue // a two-digit year is only unambiguous on the 100-year window of the century split
							}
							i++
							if tier == "quick" && i%2 == 0 && l != 367 {
								continue
							}
							out = append(out, c05Spec{Start: s, Len: l, Annual: a, K: k, Style: style, Fmt: f, Cols: i % 2})
						}
					}
				}
			}
		}
	}
	// text-valued variables filled by the model (transport instability flag) in daily, yearly and crop records
	for style := 0; style < 2; style++ {
		for _, k := range []int{1, 2} {
			out = append(out, c05Spec{Start: "2001-04-10", Len: 14, Annual: "end-1", K: k, Style: style, Fmt: "DateDElong", Cols: 1, Text: true})
		}
	}
	// records that begin with empty values: leading columns bound to text variables the run never fills
	for _, lead := range []int{1, 2} {
		for style := 0; style < 2; style++ {
			for _, rot := range []int{0, 2} {
				out = append(out, c05Spec{Start: "2003-12-31", Len: []int{40, 600}[rot/2], Annual: "0101", K: 1 + 6*(lead-1), Style: style, Fmt: "DateDElong", Cols: lead % 2, Rot: rot, Lead: lead})
			}
		}
	}
	// the library's own file writer, result folder reused after a longer run of the same plot
	for _, l := range []int{3, 30, 200} {
		for style := 0; style < 2; style++ {
			for _, k := range []int{1, 7} {
				out = append(out, c05Spec{Start: "2003-12-30", Len: l, Annual: "0101", K: k, Style: style, Fmt: "DateDElong", Cols: k % 2, Reuse: true})
			}
		}
	}
	// output interval 0 (no daily file at all): the yearly and the crop file are written all the same
	for rot := 0; rot <= 3; rot++ {
		for _, l := range []int{400, 700, 1000} {
			for style := 0; style < 2; style++ {
				out = append(out, c05Spec{Start: "2003-12-31", Len: l, Annual: []string{"0101", "3009"}[style], K: 0, Style: style, Fmt: "DateDElong", Cols: 1, Rot: rot})
			}
		}
	}
	// rotations: 1-3 harvested crops, end date before / on / after each harvest date
	for rot := 1; rot <= 3; rot++ {
		for _, l := range []int{100, 222, 223, 224, 400, 576, 577, 578, 700, 942, 943, 944, 1000} {
			for _, a := range []string{"0101", "3009", "end"} {
				for style := 0; style < 2; style++ {
					out = append(out, c05Spec{Start: "2003-12-31", Len: l, Annual: a, K: []int{1, 7}[style], Style: style, Fmt: "DateDElong", Cols: 1, Rot: rot})
				}
			}
		}
	}
	return out
}

// rotation entries (sowing, harvest) relative to start 2003-12-31; harvests on start+223 (2004-08-10), +577 (2005-07-30), +943 (2006-07-31)
var c05Rot = []proj.CropEntry{
	{Crop: "SW", Sow: "2004-03-20", Harvest: "2004-08-10", Rex: 50},
	{Crop: "WW", Sow: "2004-10-01", Harvest: "2005-07-30", Rex: 50},
	{Crop: "WG", Sow: "2005-09-25", Harvest: "2006-07-31", Rex: 50},
}

func init() {
	mc.Register(&mc.Check{
		ID:        "C05",
		Technique: "exhaustive enumeration of start date x period length x annual output date x output interval x output style (x date format, column kinds, rotations) through complete real runs; the three public result files are compared record by record with a reference calendar (Go time package)",
		Rule: "scenario = (start date from 11 boundary positions incl. leap day and year change, length from 12 values 1..1100 days, annual date from 8 values incl. the end date and its neighbours, interval 1/2/7/30, fixed-width or CSV); daily file must hold exactly the days of [start,end] whose day number is a multiple of k, consecutively; yearly file exactly one record per occurrence of the annual date in [start,end]; crop file one record per rotation entry harvested in (start,end] in rotation order; " +
			"every record must have as many fields as configured columns; state = (date, file, record index); non-trivial = window crossing a year end or leap day, or k>1",
		Assumptions: []string{"supported column kinds: text, int and float scalars, elements of 1-D and 2-D float/int/text arrays incl. the last index, nested Num/Index fields, unknown names and out-of-range indexes (NaValue); on/off variables, crop-type arrays and slices are not supported by the writer and not claimed",
			"fixed-width field count = line length equals the sum of (width+1) with widths large enough for every value", "annual date 2902 is not enumerated (not a date in most years)"},
		Bound: func(t string) string {
			if t == "quick" {
				return "11 starts x 12 lengths x 8 annual dates x 4 intervals x 2 styles + 3 rotations x 13 lengths x 3 annual dates x 2 styles"
			}
			return "57 starts (every day +-7 around 31 Dec, 28/29 Feb; monthly) x 26 lengths (1..1461 days) x 8 annual dates x 4 intervals x 2 styles + 3 rotations x 13 lengths x 3 annual dates x 2 styles"
		},
		Budget: func(t string) time.Duration {
			if t == "quick" {
				return 150 * time.Second
			}
			return 40 * time.Minute
		},
		Scenarios: func(tier string, seed int) []json.RawMessage { return mc.Specs(c05Specs(tier, seed)) },
		Run:       c05Run,
	})
}

type c05Col struct {
	name   string
	format string
}

// every supported variable kind
var c05AllKinds = []c05Col{
	{"AKTUELL", "%s"}, {"N", "%d"}, {"OUTSUM", "%.3f"}, {"C1:0", "%.3f"}, {"C1:20", "%.3f"}, {"NFOS:20", "%.4f"}, {"WG:1:0", "%.4f"}, {"WG:2:20", "%.4f"},
	{"SAAT:1", "%d"}, {"SAAT:299", "%d"}, {"BART:0", "%s"}, {"PRO:9:4", "%.2f"}, {"INTWICK.Num", "%.1f"}, {"INTWICK.Index", "%d"}, {"NoSuchVariable", "%s"},
	{"C1:21", "%s"}, {"WG:3:0", "%s"}, {"TSOIL:1:22", "%s"}, {"PKT", "%s"}, {"REGEN:367", "%.3f"},
}

func c05Config(cols []c05Col, width int, sepFill ...string) string {
	var b strings.Builder
	sep, fill := ",", " "
	if len(sepFill) == 2 {
		if sepFill[0] != "" {
			sep = sepFill[0]
		}
		if sepFill[1] != "" {
			fill = sepFill[1]
		}
	}
	fmt.Fprintf(&b, "FillCharacter: %q\nSeperatorCharacter: %q\nNaValue: n.a.\nDataColumns:\n", fill, sep)
	for ci, cdef := range cols {
		parts := strings.Split(cdef.name, ":")
		// the four alignment values rotate over the columns (the date column stays right-aligned)
		align := []string{"right", "left", "center", "none"}[ci%4]
		fmt.Fprintf(&b, "- Format: '%s'\n  DataAlignment: %s\n  Width: %d\n  VariableName: %s\n", cdef.format, align, width, parts[0])
		for i, ix := range parts[1:] {
			if ix != "0" {
				fmt.Fprintf(&b, "  VarIndex%d: %s\n", i+1, ix)
			}
		}
	}
	return b.String()
}

var c05YearCols = []c05Col{{"AKTUELL", "%s"}, {"OUTSUM", "%.3f"}, {"PerY", "%.3f"}, {"AUS:1", "%.2f"}, {"NoSuch", "%s"}}
var c05CropCols = []c05Col{{"Crop", "%s"}, {"HarvestYear", "%d"}, {"HarvestDOY", "%d"}, {"Yield", "%.1f"}, {"SowDOY", "%d"}, {"BBCH_DOY:10", "%d"}, {"SowDate", "%s"}, {"Unknown", "%s"}}

func c05Run(raw json.RawMessage, c *mc.Ctx) {
	sp := mc.Decode[c05Spec](raw)
	root := scratchRoot()
	defer os.RemoveAll(root)
	start := proj.D(sp.Start)
	end := start.AddDate(0, 0, sp.Len)
	ann := sp.Annual
	switch sp.Annual {
	case "end":
		ann = end.Format("0201")
	case "end+1":
		ann = end.AddDate(0, 0, 1).Format("0201")
	case "end-1":
		ann = end.AddDate(0, 0, -1).Format("0201")
	}
	if ann == "2902" {
		c.Outcome("skipped: annual date 29 February")
		return
	}
	annDay, annMon := 0, 0
	fmt.Sscanf(ann, "%2d%2d", &annDay, &annMon)
	annualIn := func(y int) time.Time { return time.Date(y, time.Month(annMon), annDay, 0, 0, 0, 0, time.UTC) }
	annCfg := ann
	if strings.HasPrefix(sp.Fmt, "DateEN") {
		annCfg = ann[2:] + ann[:2]
	}
	b := e1Base{Soil: "loam12", GW: 99, InitW: 0.6, InitN: 20, ET: 3, Start: sp.Start}
	p := e1Project(b, sp.Len+1)
	p.Config["Dateformat"] = sp.Fmt
	p.Config["EndDate"] = proj.DateStr(sp.Fmt, end)
	p.Config["AnnualOutputDate"] = annCfg
	p.Config["OutputIntervall"] = fmt.Sprint(sp.K)
	p.Config["ResultFileFormat"] = fmt.Sprint(sp.Style)
	p.Config["ResultFileExt"] = "res"
	if sp.Rot > 0 {
		p.Rotation = append(p.Rotation[:1], c05Rot[:sp.Rot]...)
		p.Rotation = append(p.Rotation, proj.CropEntry{Crop: "SM", Sow: "2010-04-20", Harvest: "2010-10-01"})
	}
	dcols := []c05Col{{"AKTUELL", "%s"}}
	if sp.Cols == 1 {
		dcols = c05AllKinds
	}
	ycols, ccols := c05YearCols, c05CropCols
	if sp.Text {
		// peat profile, dry start, extreme rain: the transport routine flags itself unstable and fills its status texts
		b.Soil, b.InitW, b.InitN = "peat12", 0.2, 200
		p = e1Project(b, sp.Len+1)
		p.Config["Dateformat"], p.Config["EndDate"], p.Config["AnnualOutputDate"] = sp.Fmt, proj.DateStr(sp.Fmt, end), annCfg
		p.Config["OutputIntervall"], p.Config["ResultFileFormat"], p.Config["ResultFileExt"] = fmt.Sprint(sp.K), fmt.Sprint(sp.Style), "res"
		p.Rotation = append(p.Rotation[:1], proj.CropEntry{Crop: "SW", Sow: isoAdd(sp.Start, 2), Harvest: isoAdd(sp.Start, 12), Rex: 50}, proj.CropEntry{Crop: "SM", Sow: "2010-04-20", Harvest: "2010-10-01"})
		dcols = append(append([]c05Col{}, c05AllKinds...), c05Col{"C1NotStable", "%s"})
		ycols = append(append([]c05Col{}, c05YearCols...), c05Col{"C1NotStableErr", "%s"})
		ccols = append(append([]c05Col{}, c05CropCols...), c05Col{"NotStableErr", "%s"})
	}
	if sp.Lead > 0 {
		pre := func(cols []c05Col, names ...string) []c05Col {
			var o []c05Col
			for _, n := range names[:sp.Lead] {
				o = append(o, c05Col{n, "%s"})
			}
			return append(o, cols...)
		}
		dcols, ycols, ccols = pre(dcols, "C1NotStable", "C1NotStableErr"), pre(ycols, "C1NotStableErr", "C1NotStable"), pre(ccols, "NotStableErr", "NotStableErr")
	}
	const width = 16
	p.DailyCols, p.YearlyCols, p.CropCols = c05Config(dcols, width, sp.Sep, sp.Fill), c05Config(ycols, width, sp.Sep, sp.Fill), c05Config(ccols, width, sp.Sep, sp.Fill)
	sepCh, fillCh := ",", " "
	if sp.Sep != "" {
		sepCh = sp.Sep
	}
	if sp.Fill != "" {
		fillCh = sp.Fill
	}
	// weather: from 3 days before the start to well after the (possibly extended) end
	lastAnn := annualIn(end.Year())
	wend := end
	if lastAnn.After(wend) {
		wend = lastAnn
	}
	ndays := int(wend.Sub(start).Hours()/24) + 3 + 8
	p.WeatherStart = start.AddDate(0, 0, -3).Format("2006-01-02")
	p.Weather = make([]proj.Day, ndays)
	for i := range p.Weather {
		p.Weather[i] = sigma["mild"]
		if sp.Rot > 0 {
			p.Weather[i] = sigma["grow"]
		}
		if sp.Text && (i == 5 || i == 6 || i == 9) {
			p.Weather[i] = sigma["extreme"]
		}
	}
	p.Write(root)
	var res *proj.RunResult
	if sp.Reuse {
		// first a longer run with daily output into the same result folder, then the run under test
		resDir := filepath.Join(root, "out", p.ID+"_"+p.Plot)
		short := map[string]string{"EndDate": p.Config["EndDate"], "OutputIntervall": p.Config["OutputIntervall"]}
		p.Config["EndDate"], p.Config["OutputIntervall"] = proj.DateStr(sp.Fmt, end.AddDate(0, 0, 120)), "1"
		if ndays < sp.Len+140 {
			p.Weather = append(p.Weather, make([]proj.Day, sp.Len+140-ndays)...)
			for i := range p.Weather {
				p.Weather[i] = sigma["mild"]
			}
		}
		p.Write(root)
		first := proj.RunDisk(root, p.Args(root), resDir)
		c.Trace(1)
		if !first.Success {
			mc.HarnessError("C05 reuse: the preceding longer run failed: %s %s", first.Err, first.Panic)
		}
		p.Config["EndDate"], p.Config["OutputIntervall"] = short["EndDate"], short["OutputIntervall"]
		p.Write(root)
		res = proj.RunDisk(root, p.Args(root), resDir)
	} else {
		res = proj.Run(root, p.Args(root), nil)
	}
	c.Trace(1)
	label := fmt.Sprintf("start %s end %s annual %s k=%d style=%d %s", sp.Start, end.Format("2006-01-02"), ann, sp.K, sp.Style, sp.Fmt)
	if !res.Success || res.Panic != "" {
		c.Outcome("run-error")
		c.Violate("run-error", fmt.Sprintf("%s: run failed on valid input: %s %s", label, res.Err, res.Panic), nil)
		return
	}
	// the annual output date lies after the end date in the end year: the run is extended up to that date (known finding)
	ext := ""
	if lastAnn.After(end) {
		ext = " annual-output-date>end-date"
	}
	nontrivial := sp.K > 1 || start.Year() != end.Year() || (start.Before(time.Date(2004, 2, 29, 0, 0, 0, 0, time.UTC)) && end.After(time.Date(2004, 2, 28, 0, 0, 0, 0, time.UTC)))
	dateStr := func(t time.Time) string {
		switch sp.Fmt {
		case "DateENlong":
			return t.Format("01.02.2006")
		case "DateDEshort":
			return t.Format("02.01.06")
		case "DateENshort":
			return t.Format("01.02.06")
		}
		return t.Format("02.01.2006")
	}
	records := func(prefix string) []string {
		txt := res.File(prefix)
		if txt == "" {
			return nil
		}
		ls := strings.Split(strings.TrimSuffix(txt, "\r\n"), "\r\n")
		return ls
	}
	fieldsOf := func(line string, ncols int, what string, idx int) []string {
		c.Eval(1)
		if sp.Style == 1 {
			f := strings.Split(line, sepCh)
			if len(f) != ncols {
				c.Violate(fmt.Sprintf("field-count %s CSV", what), fmt.Sprintf("%s: %s record %d has %d fields, %d columns configured: %q", label, what, idx, len(f), ncols, line), nil)
			}
			for i := range f {
				f[i] = strings.TrimSpace(f[i])
			}
			return f
		}
		trim := func(x string) string { return strings.TrimSpace(strings.Trim(x, fillCh)) }
		if n := utf8.RuneCountInString(line); n != ncols*(width+1) {
			c.Violate(fmt.Sprintf("field-count %s fixed-width", what), fmt.Sprintf("%s: %s record %d is %d characters long, %d columns of width %d (+1) configured: %q", label, what, idx, n, ncols, width, line), nil)
			return []string{trim(string([]rune(line)[:min(utf8.RuneCountInString(line), width)]))}
		}
		var f []string
		r := []rune(line)
		for i := 0; i < ncols; i++ {
			f = append(f, trim(string(r[i*(width+1):(i+1)*(width+1)])))
		}
		return f
	}
	// ---- daily file
	var wantDaily []string
	for t := start; !t.After(end); t = t.AddDate(0, 0, 1) {
		if sp.K > 0 && proj.ZEIT(t)%sp.K == 0 {
			wantDaily = append(wantDaily, dateStr(t))
		}
	}
	got := records("V")
	var gotDates []string
	for i, l := range got {
		f := fieldsOf(l, len(dcols), "daily", i)
		if sp.Lead > 0 && len(f) > sp.Lead {
			f = f[sp.Lead:]
		}
		gotDates = append(gotDates, f[0])
		c.Transition(1)
		c.State(mc.NewHasher().S("d").S(f[0]).I(sp.K).I(sp.Style).Sum())
		if nontrivial {
			c.NonTrivial(mc.NewHasher().S("d").S(f[0]).I(sp.K).I(sp.Style).S(sp.Start).Sum())
		}
		if sp.Cols == 1 && len(f) == len(dcols) {
			// NaValue columns must read n.a., bound columns must not
			for ci, cd := range dcols {
				na := cd.name == "NoSuchVariable" || cd.name == "C1:21" || cd.name == "WG:3:0" || cd.name == "TSOIL:1:22"
				if na != (f[ci] == "n.a.") {
					c.Violate("column-binding "+cd.name, fmt.Sprintf("%s: daily record %d column %s reads %q", label, i, cd.name, f[ci]), nil)
				}
			}
		}
	}
	var wantDailyExt []string
	for t := start; !t.After(wend); t = t.AddDate(0, 0, 1) {
		if sp.K > 0 && proj.ZEIT(t)%sp.K == 0 {
			wantDailyExt = append(wantDailyExt, dateStr(t))
		}
	}
	c05Compare(c, label, "daily", wantDaily, wantDailyExt, gotDates, ext)
	// ---- yearly file
	var wantYearly []string
	for y := start.Year(); y <= end.Year(); y++ {
		if a := annualIn(y); !a.Before(start) && !a.After(end) {
			wantYearly = append(wantYearly, dateStr(a))
		}
	}
	var gotY []string
	for i, l := range records("Y") {
		f := fieldsOf(l, len(ycols), "yearly", i)
		if sp.Lead > 0 && len(f) > sp.Lead {
			f = f[sp.Lead:]
		}
		gotY = append(gotY, f[0])
		c.Transition(1)
	}
	wantYearlyExt := wantYearly
	if ext != "" {
		wantYearlyExt = append(append([]string{}, wantYearly...), dateStr(lastAnn))
	}
	c05Compare(c, label, "yearly", wantYearly, wantYearlyExt, gotY, ext)
	// ---- crop file
	var wantCrop, wantCropExt, gotC []string
	if sp.Text {
		h := proj.D(isoAdd(sp.Start, 12))
		wantCrop = []string{fmt.Sprintf("SW %d %d", h.Year(), h.YearDay())}
		wantCropExt = wantCrop
	}
	if sp.Rot > 0 {
		for _, r := range c05Rot[:sp.Rot] {
			h := proj.D(r.Harvest)
			rec := fmt.Sprintf("%s %d %d", r.Crop, h.Year(), h.YearDay())
			if h.After(start) && !h.After(end) {
				wantCrop = append(wantCrop, rec)
			}
			if h.After(start) && !h.After(wend) {
				wantCropExt = append(wantCropExt, rec)
			}
		}
	}
	for i, l := range records("C") {
		f := fieldsOf(l, len(ccols), "crop", i)
		if sp.Lead > 0 && len(f) > sp.Lead {
			f = f[sp.Lead:]
		}
		if len(f) >= 3 {
			gotC = append(gotC, fmt.Sprintf("%s %s %s", f[0], f[1], f[2]))
		} else {
			gotC = append(gotC, f[0])
		}
		c.Transition(1)
	}
	c05Compare(c, label, "crop", wantCrop, wantCropExt, gotC, ext)
	if sp.Text {
		if !strings.Contains(res.File("V")+res.File("Y")+res.File("C"), "unstable") {
			mc.HarnessError("C05 text scenario: the transport never flagged itself unstable (no status text was written)")
		}
		c.Outcome("status-text-written")
	}
	c.Outcome(fmt.Sprintf("ok style=%d k=%d", sp.Style, sp.K))
	c.Sample(sp)
}

// c05Compare: got must equal want. When the run was extended up to the annual output date (ext set), records beyond
// want are attributed to that known extension only if got equals wantExt exactly.
func c05Compare(c *mc.Ctx, label, what string, want, wantExt, got []string, ext string) {
	c.Eval(1)
	eq := func(a, b []string) bool {
		if len(a) != len(b) {
			return false
		}
		for i := range a {
			if a[i] != b[i] {
				return false
			}
		}
		return true
	}
	if eq(want, got) {
		return
	}
	if ext != "" && eq(wantExt, got) {
		c.Violate(fmt.Sprintf("%s-record-after-end-date%s", what, ext), fmt.Sprintf("%s: %s file has %d records, expected %d; first record after the end date %q", label, what, len(got), len(want), got[len(want)]), nil)
		return
	}
	n := min(len(want), len(got))
	for i := 0; i < n; i++ {
		if want[i] != got[i] {
			c.Violate(fmt.Sprintf("%s-record-wrong-date", what), fmt.Sprintf("%s: %s record %d is %q, expected %q (expected %d records, got %d)", label, what, i, got[i], want[i], len(want), len(got)), nil)
			return
		}
	}
	if len(got) < len(want) {
		c.Violate(fmt.Sprintf("%s-record-missing", what), fmt.Sprintf("%s: %s file has %d records, expected %d; first missing %q", label, what, len(got), len(want), want[len(got)]), nil)
		return
	}
	c.Violate(fmt.Sprintf("%s-record-after-end-date", what), fmt.Sprintf("%s: %s file has %d records, expected %d; first extra %q", label, what, len(got), len(want), got[len(want)]), nil)
}
