package checks

import (
	"fmt"
	"os"

	"github.com/zalf-rpm/Hermes2Go/hermes"
	"verif/mc"
	"verif/proj"
)

// C04, use of the records: "driven by the record of exactly that date" also means that the record of day d has no effect
// before day d. One field of one record is changed; the run's state at every day end before d must be bit-identical to the
// unchanged run's, and for the variables the chosen ET method reads the state must differ from day d on.
// (Automatic irrigation, which looks at the coming days' rain by design, is off.)

func c04PerturbRun(sp c04Spec, c *mc.Ctx) {
	root := scratchRoot()
	defer os.RemoveAll(root)
	et := sp.Layout%10 + 1 // ET method 1..5 rides in the layout field: 10*layout + (method-1)
	layout := sp.Layout / 10
	crop := []string{"", "SW"}[sp.NoYear%2]
	b := e1Base{Soil: "loam12", GW: 99, InitW: 0.7, InitN: 30, ET: et, Crop: crop, WarmUp: 40, Start: "2001-04-20"}
	ndays := 2 + 40 + 12
	p := e1Project(b, ndays)
	p.Layout = layout
	word := make([]string, 12)
	for i := range word {
		word[i] = []string{"dry-warm", "grow", "mild", "drizzle"}[i%4]
	}
	base := e1Weather(40, word, p.VerdColumn)
	for i := range base {
		base[i].ET0 = 2 + float64(i%5)/4
	}
	start := proj.ZEIT(proj.D(p.Rotation[0].Harvest))
	run := func(w []proj.Day) (map[int]uint64, bool) {
		p.Weather = w
		p.Write(root)
		hs := map[int]uint64{}
		r := proj.Run(root, p.Args(root), &hermes.VerifProbe{DayEnd: func(g *hermes.GlobalVarsMain, zeit int, steps, wdt float64, cs *hermes.CropSharedVars, ws *hermes.WaterSharedVars) {
			hs[zeit-start] = mc.NewHasher().Fs(g.WG[1][:g.N]).Fs(g.C1[:g.N]).Fs(g.TD[:g.N]).F(g.VERDUNST).F(g.OBMAS).F(g.PESUM).F(g.ETA).Sum()
		}})
		c.Trace(1)
		return hs, r.Success && r.Panic == ""
	}
	ref, ok := run(base)
	label := fmt.Sprintf("weather layout %d, ET method %d, crop %q", layout, et, crop)
	if !ok || len(ref) < ndays-2 {
		c.Violate("run-error perturb", fmt.Sprintf("%s: the unchanged run failed", label), nil)
		return
	}
	// the perturbed day: index in the weather slice = 3 lead days + offset from the first simulated day
	for _, off := range []int{44, 47, 50} {
		for _, v := range []string{"tmin", "tmax", "tavg", "precip", "rad", "wind", "rh", "sun", "et0"} {
			w := append([]proj.Day{}, base...)
			d := &w[3+off]
			switch v {
			case "tmin":
				d.Tmin -= 2
			case "tmax":
				d.Tmax += 2
			case "tavg":
				d.Tavg += 0.5
			case "precip":
				d.Precip += 3
			case "rad":
				d.Rad += 2
			case "wind":
				d.Wind += 1
			case "rh":
				d.RH -= 10
			case "sun":
				d.Sun += 1
			case "et0":
				d.ET0 += 1.5
			}
			got, ok := run(w)
			c.Eval(1)
			c.Transition(1)
			h := mc.NewHasher().S("perturb").I(sp.Layout).I(sp.NoYear).I(off).S(v).Sum()
			c.State(h)
			c.NonTrivial(h)
			if !ok {
				c.Violate("run-error perturb", fmt.Sprintf("%s: the run with %s of day +%d changed failed", label, v, off), nil)
				continue
			}
			first := -1
			for k := 0; k < ndays; k++ {
				if a, okA := ref[k]; okA && a != got[k] {
					first = k
					break
				}
			}
			switch {
			case first >= 0 && first < off:
				c.Violate("record-acts-before-its-date "+v, fmt.Sprintf("%s: changing %s in the record of day +%d changes the state already at the end of day +%d", label, v, off, first), nil)
			case first < 0:
				c.Outcome("perturb-without-effect " + v)
			case first == off:
				c.Outcome("perturb-acts-on-its-day")
			default:
				// a variable the method reads must act on its own day
				if (v == "et0" && et == 5) || v == "precip" {
					c.Violate("record-acts-after-its-date "+v, fmt.Sprintf("%s: changing %s in the record of day +%d shows only at the end of day +%d", label, v, off, first), nil)
				} else {
					c.Outcome("perturb-acts-later")
				}
			}
		}
	}
	c.Sample(map[string]interface{}{"kind": "perturb", "layout": layout, "et": et, "crop": crop})
}
