package checks

import (
	"os"
	"path/filepath"
	"reflect"
	"verif/proj"
	"encoding/json"
	"fmt"
	"time"

	"github.com/zalf-rpm/Hermes2Go/hermes"
	"verif/mc"
)

// C12 — date conversion is a calendar-correct, order-preserving bijection.
// Literally exhaustive: every date 1901-01-01..2099-12-31 x long formats x separator variants,
// and for the short formats every century split 0..100 with the 100-year window it makes unambiguous.

type c12Spec struct {
	Format int  `json:"format"` // hermes.DateFormat
	Split  int  `json:"split"`  // DivideCentury (short formats)
	Sep    bool `json:"sep"`    // text written with separators
	Hist   bool `json:"hist,omitempty"` // call-history family: one converter instance used for sequences of dates
	Cfg    bool `json:"cfg,omitempty"`  // the converters a RUN uses: format/century split from the project file and from the batch line (Format = file's format)
}

func c12Text(f hermes.DateFormat, t time.Time, sep bool) string {
	d, m, y := t.Day(), int(t.Month()), t.Year()
	a, b := d, m
	if f == hermes.DateENlong || f == hermes.DateENshort {
		a, b = m, d
	}
	long := f == hermes.DateDElong || f == hermes.DateENlong
	if long {
		if sep {
			return fmt.Sprintf("%02d.%02d.%04d", a, b, y)
		}
		return fmt.Sprintf("%02d%02d%04d", a, b, y)
	}
	if sep {
		return fmt.Sprintf("%02d.%02d.%02d", a, b, y%100)
	}
	return fmt.Sprintf("%02d%02d%02d", a, b, y%100)
}

func init() {
	mc.Register(&mc.Check{
		ID:        "C12",
		Technique: "exhaustive enumeration of the finite input space of the real conversion functions against Go's time package",
		Rule: "one scenario per (format, century split, separator variant); inside it every calendar date of the range the format can express unambiguously is converted text->number->text; " +
			"history scenario = the converter closures as state machines: every listed call sequence on one instance must answer like a fresh instance; " +
			"a case is one (date, format, split, separator) tuple; all are distinct; non-trivial = leap-day, year-boundary and century-boundary dates",
		Assumptions: []string{"Go's time package is the reference calendar", "short formats: years 1900+split .. 1999+split (clipped to 1901..2099), the window in which a two-digit year is unambiguous"},
		Bound:       func(string) string { return "all 72684 dates 1901-01-01..2099-12-31; long formats x {sep, nosep}; short formats x splits 0..100 x {sep, nosep} (both tiers identical: the space is finite); call histories on one converter instance: all sequences of 3 over the boundary dates (1 Jan, 28/29 Feb, 1 Mar, 31 Dec of up to 14 boundary years), all pairs of month-boundary dates of those years, descending and zig-zag sweeps of all dates, for 4 formats (short formats x splits 0, 50, 100)" },
		Scenarios: func(tier string, seed int) []json.RawMessage {
			var s []c12Spec
			for _, f := range []hermes.DateFormat{hermes.DateDElong, hermes.DateENlong} {
				for _, sep := range []bool{false, true} {
					s = append(s, c12Spec{Format: int(f), Sep: sep})
				}
			}
			for _, f := range []hermes.DateFormat{hermes.DateDEshort, hermes.DateENshort} {
				for split := 0; split <= 100; split++ {
					for _, sep := range []bool{false, true} {
						s = append(s, c12Spec{Format: int(f), Split: split, Sep: sep})
					}
				}
			}
			// call histories: the converters are closures; every sequence of up to three boundary dates (and every
			// pair of month-boundary dates, a descending and a zig-zag sweep of all dates) on ONE instance must give
			// what a fresh instance gives
			for _, f := range []hermes.DateFormat{hermes.DateDElong, hermes.DateENlong, hermes.DateDEshort, hermes.DateENshort} {
				for _, split := range []int{0, 50, 100} {
					if (f == hermes.DateDElong || f == hermes.DateENlong) && split != 50 {
						continue
					}
					s = append(s, c12Spec{Format: int(f), Split: split, Sep: true, Hist: true})
				}
			}
			// the converters a run builds from its configuration: file format x line format x file split x line split
			for _, f := range []hermes.DateFormat{hermes.DateDEshort, hermes.DateDElong, hermes.DateENshort, hermes.DateENlong} {
				s = append(s, c12Spec{Format: int(f), Cfg: true})
			}
			return mc.Specs(s)
		},
		Run: c12Run,
	})
}

func c12Run(raw json.RawMessage, c *mc.Ctx) {
	sp := mc.Decode[c12Spec](raw)
	if sp.Hist {
		c12Hist(sp, c)
		return
	}
	if sp.Cfg {
		c12Cfg(sp, c)
		return
	}
	f := hermes.DateFormat(sp.Format)
	long := f == hermes.DateDElong || f == hermes.DateENlong
	conv := hermes.DateConverter(sp.Split, f)
	back := hermes.KalenderConverter(f, ".")
	lo, hi := 1901, 2099
	if !long {
		// two-digit year yy means 1900+yy for yy >= split, 2000+yy for yy < split
		lo, hi = 1900+sp.Split, 1999+sp.Split
		if lo < 1901 {
			lo = 1901
		}
		if hi > 2099 {
			hi = 2099
		}
	}
	epoch := time.Date(1900, 12, 31, 0, 0, 0, 0, time.UTC)
	prev := 0
	first := true
	c.Trace(1)
	for t := time.Date(lo, 1, 1, 0, 0, 0, 0, time.UTC); t.Year() <= hi; t = t.AddDate(0, 0, 1) {
		txt := c12Text(f, t, sp.Sep)
		doy, num := conv(txt)
		want := int(t.Sub(epoch).Hours() / 24)
		c.Eval(1)
		c.Transition(1)
		c.State(mc.NewHasher().I(sp.Format).I(sp.Split).I(num).Sum())
		special := (t.Month() == 2 && t.Day() >= 28) || (t.Month() == 3 && t.Day() == 1) || t.YearDay() == 1 || (t.Month() == 12 && t.Day() == 31)
		if special {
			h := mc.NewHasher().I(sp.Format).I(sp.Split).I(want)
			if sp.Sep {
				h.I(1)
			}
			c.NonTrivial(h.Sum())
		}
		if num != want {
			c.Violate(fmt.Sprintf("daynumber fmt=%v", f), fmt.Sprintf("%s (format %v split %d) -> day number %d, calendar says %d", txt, f, sp.Split, num, want), nil)
		}
		if doy != t.YearDay() {
			c.Violate(fmt.Sprintf("dayofyear fmt=%v", f), fmt.Sprintf("%s (format %v) -> day of year %d, calendar says %d", txt, f, doy, t.YearDay()), nil)
		}
		if !first && num != prev+1 {
			c.Violate(fmt.Sprintf("consecutive fmt=%v", f), fmt.Sprintf("%s: day number %d does not follow %d", txt, num, prev), nil)
		}
		first, prev = false, num
		// and back: rendering always uses separators; compare with the separator form of the same date
		got := back(num)
		if wantTxt := c12Text(f, t, true); got != wantTxt {
			c.Violate(fmt.Sprintf("roundtrip fmt=%v", f), fmt.Sprintf("%s -> %d -> %s", txt, num, got), nil)
		}
		y, m, d := hermes.KalenderDate(num)
		if y != t.Year() || m != int(t.Month()) || d != t.Day() {
			c.Violate("kalenderdate", fmt.Sprintf("day number %d -> %04d-%02d-%02d, calendar says %s", num, y, m, d, t.Format("2006-01-02")), nil)
		}
		// leap years are exactly the years divisible by four: 29 Feb must exist, and 1 Mar is day 60/61
		if t.Month() == 3 && t.Day() == 1 {
			leap := t.Year()%4 == 0
			if (doy == 61) != leap {
				c.Violate("leaprule", fmt.Sprintf("1 March %d has day-of-year %d", t.Year(), doy), nil)
			}
		}
	}
	if long && sp.Sep == false && f == hermes.DateDElong {
		if _, n := conv("01011901"); n != 1 {
			c.Violate("epoch", fmt.Sprintf("1901-01-01 -> %d, want 1", n), nil)
		}
	}
	c.Sample(map[string]interface{}{"format": f.String(), "split": sp.Split, "sep": sp.Sep, "first": c12Text(f, time.Date(lo, 1, 1, 0, 0, 0, 0, time.UTC), sp.Sep), "last": c12Text(f, time.Date(hi, 12, 31, 0, 0, 0, 0, time.UTC), sp.Sep)})
	c.Outcome("ok")
}

// c12Hist treats the two converter closures as state machines: operation = "convert date d"; every sequence of the
// stated shape is executed on one instance and each answer is compared with the answer of a fresh instance.
func c12Hist(sp c12Spec, c *mc.Ctx) {
	f := hermes.DateFormat(sp.Format)
	long := f == hermes.DateDElong || f == hermes.DateENlong
	lo, hi := 1901, 2099
	if !long {
		lo, hi = max(1901, 1900+sp.Split), min(2099, 1999+sp.Split)
	}
	epoch := time.Date(1900, 12, 31, 0, 0, 0, 0, time.UTC)
	type dt struct {
		txt  string
		num  int
		doy  int
		back string
	}
	mk := func(t time.Time) dt {
		return dt{c12Text(f, t, sp.Sep), int(t.Sub(epoch).Hours() / 24), t.YearDay(), c12Text(f, t, true)}
	}
	// boundary years of the window: first, last, around 1999/2000/2001, leap and non-leap neighbours
	yearSet := map[int]bool{}
	for _, y := range []int{lo, lo + 1, lo + 3, 1904, 1950, 1996, 1999, 2000, 2001, 2004, 2050, 2096, hi - 1, hi} {
		if y >= lo && y <= hi {
			yearSet[y] = true
		}
	}
	var small, months []dt
	for y := lo; y <= hi; y++ {
		if !yearSet[y] {
			continue
		}
		for _, md := range [][2]int{{1, 1}, {2, 28}, {2, 29}, {3, 1}, {12, 31}} {
			t := time.Date(y, time.Month(md[0]), md[1], 0, 0, 0, 0, time.UTC)
			if int(t.Month()) != md[0] {
				continue // 29 February of a non-leap year
			}
			small = append(small, mk(t))
		}
		for m := 1; m <= 12; m++ {
			months = append(months, mk(time.Date(y, time.Month(m), 1, 0, 0, 0, 0, time.UTC)), mk(time.Date(y, time.Month(m)+1, 0, 0, 0, 0, 0, time.UTC)))
		}
	}
	bad := 0
	runSeq := func(seq []dt, what string) {
		conv := hermes.DateConverter(sp.Split, f)
		back := hermes.KalenderConverter(f, ".")
		c.Trace(1)
		for i, d := range seq {
			doy, num := conv(d.txt)
			got := back(d.num)
			c.Transition(1)
			c.Eval(1)
			if (num != d.num || doy != d.doy || got != d.back) && bad < 5 {
				bad++
				var hist []string
				for _, h := range seq[:i] {
					hist = append(hist, h.back)
				}
				c.Violate(fmt.Sprintf("history-dependent-conversion fmt=%v", f), fmt.Sprintf("%s: after converting %v with the same converter (format %v split %d): %s -> number %d doy %d (calendar %d, %d); number %d -> %q (calendar %q)", what, hist, f, sp.Split, d.txt, num, doy, d.num, d.doy, d.num, got, d.back), nil)
			}
		}
	}
	for _, a := range small {
		for _, b := range small {
			for _, d := range small {
				runSeq([]dt{a, b, d}, "sequence of three")
			}
		}
	}
	for _, a := range months {
		for _, b := range months {
			runSeq([]dt{a, b}, "pair")
		}
	}
	// whole-range sweeps on one instance: descending and zig-zag (ends towards the middle)
	var all []dt
	for t := time.Date(lo, 1, 1, 0, 0, 0, 0, time.UTC); t.Year() <= hi; t = t.AddDate(0, 0, 1) {
		all = append(all, mk(t))
	}
	desc := make([]dt, len(all))
	zig := make([]dt, 0, len(all))
	for i := range all {
		desc[len(all)-1-i] = all[i]
	}
	for i, j := 0, len(all)-1; i <= j; i, j = i+1, j-1 {
		zig = append(zig, all[j], all[i])
	}
	runSeq(desc, "descending sweep")
	runSeq(zig, "zig-zag sweep")
	h := mc.NewHasher().S("hist").I(sp.Format).I(sp.Split).Sum()
	c.State(h)
	c.NonTrivial(h)
	c.Count("history_sequences", len(small)*len(small)*len(small)+len(months)*len(months)+2)
	c.Sample(map[string]interface{}{"format": f.String(), "split": sp.Split, "history_alphabet": len(small), "pair_alphabet": len(months)})
	c.Outcome("ok-history")
}

type c12Abort struct{}

// c12Cfg: the date converters of a run (GlobalVarsMain.Datum / Kalender) must be the converters of the EFFECTIVE
// configuration: format and century split from the batch line if given there, else from the project file.
func c12Cfg(sp c12Spec, c *mc.Ctx) {
	root := scratchRoot()
	defer os.RemoveAll(root)
	fileFmt := hermes.DateFormat(sp.Format)
	b := e1Base{Soil: "loam12", GW: 99, InitW: 0.6, InitN: 20, ET: 3}
	p := e1Project(b, 10)
	p.Weather = e1Weather(0, []string{"mild", "rain", "mild", "dry-warm", "mild", "drizzle", "mild"}, false)
	samples := []time.Time{time.Date(1929, 12, 31, 0, 0, 0, 0, time.UTC), time.Date(1930, 1, 1, 0, 0, 0, 0, time.UTC), time.Date(1959, 6, 13, 0, 0, 0, 0, time.UTC), time.Date(1960, 2, 29, 0, 0, 0, 0, time.UTC),
		time.Date(1999, 12, 31, 0, 0, 0, 0, time.UTC), time.Date(2000, 3, 1, 0, 0, 0, 0, time.UTC), time.Date(2024, 2, 29, 0, 0, 0, 0, time.UTC), time.Date(2029, 11, 5, 0, 0, 0, 0, time.UTC)}
	for _, fileSplit := range []int{-1, 30, 60} {
		for _, lineFmt := range []int{-1, 0, 1, 2, 3} {
			for _, lineSplit := range []int{-1, 0, 30, 60} {
				p.Config["Dateformat"] = fileFmt.String()
				delete(p.Config, "DivideCentury")
				effSplit := 50 // (the project builder's configuration file carries DivideCentury: 50 unless told otherwise)
				if fileSplit >= 0 {
					p.Config["DivideCentury"] = fmt.Sprint(fileSplit)
					effSplit = fileSplit
				}
				p.Config["EndDate"] = c12Text(fileFmt, time.Date(2001, 4, 19, 0, 0, 0, 0, time.UTC), false)
				p.Write(root)
				writeWeather(root, p)
				eff := fileFmt
				args := p.Args(root)
				if lineFmt >= 0 {
					eff = hermes.DateFormat(lineFmt)
					// (the end date is a date-bearing value of the configuration: it goes with the format)
					args = append(args, fmt.Sprintf("Dateformat=%d", lineFmt), "EndDate="+c12Text(eff, time.Date(2001, 4, 19, 0, 0, 0, 0, time.UTC), false))
				}
				if lineSplit >= 0 {
					args = append(args, fmt.Sprintf("DivideCentury=%d", lineSplit))
					effSplit = lineSplit
				}
				refConv, refBack := hermes.DateConverter(effSplit, eff), hermes.KalenderConverter(eff, ".")
				long := eff == hermes.DateDElong || eff == hermes.DateENlong
				label := fmt.Sprintf("config.yml Dateformat=%v DivideCentury=%d, batch line format=%d split=%d (-1 = not given)", fileFmt, fileSplit, lineFmt, lineSplit)
				reached := false
				var readCfg *hermes.Config
				pr := &hermes.VerifProbe{Config: func(g *hermes.GlobalVarsMain, cfg *hermes.Config, hp *hermes.HFilePath) {
					reached = true
					if readCfg == nil {
						cp := *cfg
						readCfg = &cp
					}
					for _, t := range samples {
						if !long && (t.Year() < 1900+effSplit || t.Year() > 1999+effSplit) {
							continue // outside the window in which a two-digit year is unambiguous
						}
						txt := c12Text(eff, t, false)
						wd, wn := refConv(txt)
						gd, gn := g.Datum(txt)
						c.Eval(2)
						if gd != wd || gn != wn {
							c.Violate("run-converter-differs-from-effective-configuration text->number", fmt.Sprintf("%s: the run converts %q to day %d (day of year %d), the effective configuration (format %v, split %d) gives day %d (%d)", label, txt, gn, gd, eff, effSplit, wn, wd), nil)
							break
						}
						if got, want := g.Kalender(wn), refBack(wn); got != want {
							c.Violate("run-converter-differs-from-effective-configuration number->text", fmt.Sprintf("%s: the run writes day %d as %q, the effective configuration (format %v) gives %q", label, wn, got, eff, want), nil)
							break
						}
					}
					panic(c12Abort{})
				}}
				proj.Run(root, args, pr)
				c.Trace(1)
				c.Transition(1)
				h := mc.NewHasher().S("cfg").I(sp.Format).I(fileSplit).I(lineFmt).I(lineSplit).Sum()
				c.State(h)
				if lineFmt >= 0 || lineSplit >= 0 {
					c.NonTrivial(h)
				}
				if !reached {
					c.Violate("configuration-not-read", fmt.Sprintf("%s: the run did not reach the end of the configuration reader", label), nil)
				}
				if lineFmt < 0 && lineSplit < 0 && readCfg != nil {
					// the same configuration written back by the program's own writer and read again: complete runs in
					// fresh processes (a configuration the reader rejects ends the process) must give the same files
					ra := proj.RunFresh(root, args)
					hermes.NewHermesSession().WriteYamlConfig(filepath.Join(root, "project", p.ID, "config.yml"), *readCfg)
					rb := proj.RunFresh(root, args)
					c.Trace(2)
					c.Transition(1)
					h := mc.NewHasher().S("cfg-written").I(sp.Format).I(fileSplit).Sum()
					c.State(h)
					if !ra.Success || ra.Panic != "" {
						mc.HarnessError("c12 cfg: reference run failed: %s %s", ra.Err, ra.Panic)
					}
					c.NonTrivial(h)
					if !rb.Success || rb.Panic != "" || !reflect.DeepEqual(ra.Files, rb.Files) {
						c.Violate("program-written-configuration-read-back-differently", fmt.Sprintf("%s: the configuration the run had read, written by the program's own writer and read again: success=%v %s %.200s; result files equal=%v", label, rb.Success, rb.Err, rb.Panic, reflect.DeepEqual(ra.Files, rb.Files)), nil)
					}
				}
			}
		}
	}
	c.Sample(map[string]interface{}{"file_format": fileFmt.String(), "cases": 60})
	c.Outcome("ok-run-converters")
}
