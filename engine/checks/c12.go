package checks

import (
	"encoding/json"
	"fmt"
	"time"

	"github.com/zalf-rpm/Hermes2Go/hermes"
	"verif/mc"
)

// C12 — date conversion is a calendar-correct, order-preserving bijection.
// Literally exhaustive: every date 1901-01-01..2099-12-31 x long formats x separator variants,
// and for the short formats every century split 0..100 with the 100-year window it makes unambiguous.

type c12Spec struct {
	Format int  `json:"format"` // hermes.DateFormat
	Split  int  `json:"split"`  // DivideCentury (short formats)
	Sep    bool `json:"sep"`    // text written with separators
}

func c12Text(f hermes.DateFormat, t time.Time, sep bool) string {
	d, m, y := t.Day(), int(t.Month()), t.Year()
	a, b := d, m
	if f == hermes.DateENlong || f == hermes.DateENshort {
		a, b = m, d
	}
	long := f == hermes.DateDElong || f == hermes.DateENlong
	if long {
		if sep {
			return fmt.Sprintf("%02d.%02d.%04d", a, b, y)
		}
		return fmt.Sprintf("%02d%02d%04d", a, b, y)
	}
	if sep {
		return fmt.Sprintf("%02d.%02d.%02d", a, b, y%100)
	}
	return fmt.Sprintf("%02d%02d%02d", a, b, y%100)
}

func init() {
	mc.Register(&mc.Check{
		ID:        "C12",
		Technique: "exhaustive enumeration of the finite input space of the real conversion functions against Go's time package",
		Rule: "one scenario per (format, century split, separator variant); inside it every calendar date of the range the format can express unambiguously is converted text->number->text; " +
			"a case is one (date, format, split, separator) tuple; all are distinct; non-trivial = leap-day, year-boundary and century-boundary dates",
		Assumptions: []string{"Go's time package is the reference calendar", "short formats: years 1900+split .. 1999+split (clipped to 1901..2099), the window in which a two-digit year is unambiguous"},
		Bound:       func(string) string { return "all 72684 dates 1901-01-01..2099-12-31; long formats x {sep, nosep}; short formats x splits 0..100 x {sep, nosep} (both tiers identical: the space is finite)" },
		Scenarios: func(tier string, seed int) []json.RawMessage {
			var s []c12Spec
			for _, f := range []hermes.DateFormat{hermes.DateDElong, hermes.DateENlong} {
				for _, sep := range []bool{false, true} {
					s = append(s, c12Spec{Format: int(f), Sep: sep})
				}
			}
			for _, f := range []hermes.DateFormat{hermes.DateDEshort, hermes.DateENshort} {
				for split := 0; split <= 100; split++ {
					for _, sep := range []bool{false, true} {
						s = append(s, c12Spec{Format: int(f), Split: split, Sep: sep})
					}
				}
			}
			return mc.Specs(s)
		},
		Run: c12Run,
	})
}

func c12Run(raw json.RawMessage, c *mc.Ctx) {
	sp := mc.Decode[c12Spec](raw)
	f := hermes.DateFormat(sp.Format)
	long := f == hermes.DateDElong || f == hermes.DateENlong
	conv := hermes.DateConverter(sp.Split, f)
	back := hermes.KalenderConverter(f, ".")
	lo, hi := 1901, 2099
	if !long {
		// two-digit year yy means 1900+yy for yy >= split, 2000+yy for yy < split
		lo, hi = 1900+sp.Split, 1999+sp.Split
		if lo < 1901 {
			lo = 1901
		}
		if hi > 2099 {
			hi = 2099
		}
	}
	epoch := time.Date(1900, 12, 31, 0, 0, 0, 0, time.UTC)
	prev := 0
	first := true
	c.Trace(1)
	for t := time.Date(lo, 1, 1, 0, 0, 0, 0, time.UTC); t.Year() <= hi; t = t.AddDate(0, 0, 1) {
		txt := c12Text(f, t, sp.Sep)
		doy, num := conv(txt)
		want := int(t.Sub(epoch).Hours() / 24)
		c.Eval(1)
		c.Transition(1)
		c.State(mc.NewHasher().I(sp.Format).I(sp.Split).I(num).Sum())
		special := (t.Month() == 2 && t.Day() >= 28) || (t.Month() == 3 && t.Day() == 1) || t.YearDay() == 1 || (t.Month() == 12 && t.Day() == 31)
		if special {
			h := mc.NewHasher().I(sp.Format).I(sp.Split).I(want)
			if sp.Sep {
				h.I(1)
			}
			c.NonTrivial(h.Sum())
		}
		if num != want {
			c.Violate(fmt.Sprintf("daynumber fmt=%v", f), fmt.Sprintf("%s (format %v split %d) -> day number %d, calendar says %d", txt, f, sp.Split, num, want), nil)
		}
		if doy != t.YearDay() {
			c.Violate(fmt.Sprintf("dayofyear fmt=%v", f), fmt.Sprintf("%s (format %v) -> day of year %d, calendar says %d", txt, f, doy, t.YearDay()), nil)
		}
		if !first && num != prev+1 {
			c.Violate(fmt.Sprintf("consecutive fmt=%v", f), fmt.Sprintf("%s: day number %d does not follow %d", txt, num, prev), nil)
		}
		first, prev = false, num
		// and back: rendering always uses separators; compare with the separator form of the same date
		got := back(num)
		if wantTxt := c12Text(f, t, true); got != wantTxt {
			c.Violate(fmt.Sprintf("roundtrip fmt=%v", f), fmt.Sprintf("%s -> %d -> %s", txt, num, got), nil)
		}
		y, m, d := hermes.KalenderDate(num)
		if y != t.Year() || m != int(t.Month()) || d != t.Day() {
			c.Violate("kalenderdate", fmt.Sprintf("day number %d -> %04d-%02d-%02d, calendar says %s", num, y, m, d, t.Format("2006-01-02")), nil)
		}
		// leap years are exactly the years divisible by four: 29 Feb must exist, and 1 Mar is day 60/61
		if t.Month() == 3 && t.Day() == 1 {
			leap := t.Year()%4 == 0
			if (doy == 61) != leap {
				c.Violate("leaprule", fmt.Sprintf("1 March %d has day-of-year %d", t.Year(), doy), nil)
			}
		}
	}
	if long && sp.Sep == false && f == hermes.DateDElong {
		if _, n := conv("01011901"); n != 1 {
			c.Violate("epoch", fmt.Sprintf("1901-01-01 -> %d, want 1", n), nil)
		}
	}
	c.Sample(map[string]interface{}{"format": f.String(), "split": sp.Split, "sep": sp.Sep, "first": c12Text(f, time.Date(lo, 1, 1, 0, 0, 0, 0, time.UTC), sp.Sep), "last": c12Text(f, time.Date(hi, 12, 31, 0, 0, 0, 0, time.UTC), sp.Sep)})
	c.Outcome("ok")
}
