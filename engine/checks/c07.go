package checks

import (
	"encoding/json"
	"fmt"
	"math"
	"os"
	"strings"
	"time"

	"github.com/zalf-rpm/Hermes2Go/hermes"
	"verif/mc"
	"verif/proj"
)

// C07 — N pools non-negative; organic/fertiliser bookkeeping exact; uptake and fixation credited once per day.

type c07Spec struct {
	Base     e1Base   `json:"base"`
	Fert     string   `json:"fert,omitempty"`
	TillCM   int      `json:"till_cm,omitempty"`
	TillTyp  int      `json:"till_typ,omitempty"`
	Alpha    []string `json:"alpha,omitempty"`
	D        int      `json:"d,omitempty"`
	Word     []string `json:"word,omitempty"`
	Long     *lwSpec  `json:"long,omitempty"` // a long world (long.go) instead of words
	TillCM2  int      `json:"till_cm2,omitempty"` // a second mixing tillage two days after the first
	TillCM3  int      `json:"till_cm3,omitempty"` // ... and a third one two days later
	Factor   int      `json:"factor,omitempty"` // global fertilisation factor in % + 1 (0 = the default 100 %)
}

var c07Ferts = []string{"KAS", "AHL", "H", "NPK", "ALZ", "AZU", "NIT", "RG", "SM", "RM", "RSG", "SG", "SSM", "HG", "HFM", "HM", "CK", "KSL", "BAK", "BA2", "URE", "RG1", "RG2", "RG3", "RG4", "RG5", "FM", "AS", "DAP"}
var c07Alpha = []string{"dry-warm", "frost", "heavy", "extreme", "dry-hot-windy"}

func c07Specs(tier string, seed int) []c07Spec {
	var out []c07Spec
	d := 3
	if tier == "thorough" {
		d = 4
	}
	i := 0
	// A: bare soil, tillage depth x type x fertiliser
	for _, so := range []string{"loam12", "three", "sand20", "two", "peat12"} {
		for _, cm := range []int{0, 5, 10, 15, 25, 28, 30, 40, 50, 100} {
			for _, typ := range []int{0, 1} {
				if (cm == 0 && typ == 1) || cm > 10*soilN(so) {
					continue // tillage deeper than the profile is not a valid input
				}
				nf := 3
				if tier == "thorough" {
					nf = len(c07Ferts)
				}
				for k := 0; k < nf; k++ {
					f := c07Ferts[(i+k*10+seed)%len(c07Ferts)]
					if tier == "thorough" {
						f = c07Ferts[k]
					}
					out = append(out, c07Spec{Base: e1Base{Soil: so, GW: 99, InitW: 0.7, InitN: 30, ET: 3}, Fert: f, TillCM: cm, TillTyp: typ, Alpha: c07Alpha, D: d})
				}
				i++
			}
		}
	}
	// A1: repeated mixing tillages (the second and third redistribute what the first spread), also below the mineralisation zone
	for _, so := range []string{"loam12", "sand20", "peat12", "three"} {
		for _, t := range [][3]int{{40, 35, 50}, {35, 50, 40}, {25, 25, 25}, {15, 20, 15}, {50, 10, 50}, {30, 30, 0}} {
			if t[0] > 10*soilN(so) || t[1] > 10*soilN(so) || t[2] > 10*soilN(so) {
				continue
			}
			out = append(out, c07Spec{Base: e1Base{Soil: so, GW: 99, InitW: 0.7, InitN: 30, ET: 3}, Fert: "RG", TillCM: t[0], TillTyp: 1, TillCM2: t[1], TillCM3: t[2], Alpha: c07Alpha[:3], D: 2})
		}
	}
	// A2: every fertiliser type under the global fertilisation factors 0, 25, 50 and 250 % (bare soil, no tillage)
	for k, f := range c07Ferts {
		for _, fac := range []int{0, 25, 50, 250} {
			if tier == "thorough" || (k+fac/25)%2 == 0 {
				out = append(out, c07Spec{Base: e1Base{Soil: []string{"loam12", "sand20"}[k%2], GW: 99, InitW: 0.7, InitN: 30, ET: 3}, Fert: f, Alpha: c07Alpha[:3], D: 2, Factor: fac + 1})
			}
		}
	}
	// A3: bare soil over a shallow groundwater table (1-5 dm): water-filled layers inside the mineralisation zone below
	// aerated ones, warm and cold soil, with organic fertiliser in the topsoil
	for _, so := range []string{"loam12", "sand20", "clay20"} {
		for gw := 1; gw <= 5; gw++ {
			for _, start := range []string{"2001-07-01", "2001-03-01"} {
				out = append(out, c07Spec{Base: e1Base{Soil: so, GW: gw, InitW: 0.8, InitN: 30, ET: 3, Start: start}, Fert: []string{"RG", "SM", "KAS"}[gw%3], Alpha: c07Alpha[:4], D: 2})
			}
		}
	}
	// B: growing crops incl. legumes on many-sub-step days
	for _, so := range []string{"loam12", "sand20", "stony9", "three"} {
		for _, crop := range []string{"SOY", "LUP", "SW", "SM"} {
			for _, in := range []float64{0, 15, 150} {
				for _, gw := range []int{99, soilN(so)} {
					for _, warm := range []int{35, 70} {
						b := e1Base{Soil: so, GW: gw, InitW: 0.8, InitN: in, Crop: crop, WarmUp: warm, ET: 3, Start: "2001-04-25"}
						out = append(out, c07Spec{Base: b, Fert: "KAS", Alpha: c07Alpha, D: d})
					}
				}
			}
		}
	}
	// C: a legume cut while it is still fixing N, followed by a non-legume (and the other way round)
	for _, so := range []string{"loam12", "sand20"} {
		for _, pair := range [][2]string{{"SOY", "SW"}, {"LUP", "SM"}, {"SW", "SOY"}, {"SOY", "LUP"}} {
			for _, pre := range []int{40, 65} {
				for _, in := range []float64{0, 60} {
					b := e1Base{Soil: so, GW: 99, InitW: 0.8, InitN: in, Crop: pair[1], PreCrop: pair[0], PreDays: pre, WarmUp: pre + 25, ET: 3, Start: "2001-04-25"}
					out = append(out, c07Spec{Base: b, Fert: "KAS", Alpha: c07Alpha, D: d - 1})
				}
			}
		}
	}
	for _, lw := range lwSpecs(tier, seed, false) {
		lw := lw
		if !lwDefs()[lw.World].leachAbove { // (the property is quantified like C02: leaching depth at the profile bottom)
			out = append(out, c07Spec{Long: &lw})
		}
	}
	return out
}

func init() {
	mc.Register(&mc.Check{
		ID:        "C07",
		Technique: "explicit-state bounded exploration of the real day loop: all weather words up to depth D from initial states covering every fertiliser type, tillage depths/types and growing (legume) crops; pool/counter invariants on every sub-step and day",
		Rule: "scenario = initial state (soil x tillage depth/type x fertiliser type, or crop x N level x groundwater x crop age) with all words of Sigma^D; state = (N-min, organic pools, counters, crop N); " +
			"non-trivial = day with fertiliser/tillage/fixation/uptake or more than one sub-step",
		Assumptions: []string{"scheduled fertilisation", "exact pool+counter equality is required only on days without crop litter input (bare soil); with a crop the pools may only gain"},
		Bound: func(t string) string {
			if t == "quick" {
				return "D=3 over 5 symbols; 10 tillage depths x 2 types x 3 rotating fertiliser types x 5 soils; 4 crops x 3 N levels x 2 gw x 2 ages x 4 soils"
			}
			return "D=4 over 5 symbols; 10 tillage depths x 2 types x all 29 fertiliser types x 5 soils; crop grid as quick"
		},
		Budget: func(t string) time.Duration {
			if t == "quick" {
				return 150 * time.Second
			}
			return 45 * time.Minute
		},
		Scenarios: func(tier string, seed int) []json.RawMessage { return mc.Specs(c07Specs(tier, seed)) },
		Run:       c07Run,
	})
}

type c07Probe struct {
	dayPesum, dayAufna, dayNfix float64
	cropDay                     bool
	// before the N routine of the first sub-step: crop N content, cumulative uptake, rotation position; fixation the
	// crop model computed today
	bnPesum, bnAufna, fixToday float64
	bnAkf                      int
	bnSeen                     bool
	c     *mc.Ctx
	label string
	bare  bool
	// day start snapshot
	naos, nfos     [21]float64
	minaos, minfos [21]float64
	dsumm, nh4sum  float64
	fertDue        bool
	fertIdx        int
	tillDue        bool
	tillDepth      float64
	tillTyp        int
	harvestDay     bool
	rootMax        int // deepest rooting depth seen during the day (layers)
	// sub-step
	pesum, aufna, nfixsum float64
	nontriv               bool
}

func (l *c07Probe) nonneg(zeit int, name string, v float64) {
	if !finite(v) || v < -1e-12 {
		l.c.Violate("negative-or-nonfinite "+name, fmt.Sprintf("%s day %d: %s = %v", l.label, zeit, name, v), nil)
	}
}

func (l *c07Probe) probe() *hermes.VerifProbe {
	return &hermes.VerifProbe{
		DayStart: func(g *hermes.GlobalVarsMain, zeit int) {
			l.naos, l.nfos = g.NAOS, g.NFOS
			copy(l.minaos[:], g.MINAOS[:])
			copy(l.minfos[:], g.MINFOS[:])
			l.dsumm, l.nh4sum = g.DSUMM, g.NH4Sum
			l.fertIdx = g.NDG.Index
			l.fertDue = !g.AUTOFERT && zeit == g.ZTDG[g.NDG.Index]+1
			l.tillDue = zeit == g.EINTE[g.NTIL.Index+1]+1
			l.tillDepth, l.tillTyp = g.EINT[g.NTIL.Index], g.TILART[g.NTIL.Index]
			l.harvestDay = zeit == g.ERNTE[g.AKF.Index]
			l.rootMax = g.WURZ
			l.nontriv = l.fertDue || l.tillDue
			l.dayPesum, l.dayAufna, l.dayNfix = g.PESUM, g.AUFNASUM, g.NFIXSUM
			l.cropDay = g.SAAT[g.AKF.Index] > 0 && zeit > g.SAAT[g.AKF.Index] && !l.harvestDay
		},
		AfterEvatra: func(g *hermes.GlobalVarsMain, zeit int, w *hermes.WaterSharedVars) {
			l.pesum, l.aufna, l.nfixsum = g.PESUM, g.AUFNASUM, g.NFIXSUM
			l.bnSeen = false
		},
		BeforeNitro: func(g *hermes.GlobalVarsMain, zeit, subd int) {
			if g.WURZ > l.rootMax {
				l.rootMax = g.WURZ
			}
			if subd == 1 {
				l.bnSeen, l.bnPesum, l.bnAufna, l.bnAkf = true, g.PESUM, g.AUFNASUM, g.AKF.Index
				l.fixToday = g.NFIXSUM - l.nfixsum // (the crop model runs between the ET routine and here)
			}
		},
		SubStep: func(g *hermes.GlobalVarsMain, zeit, subd int, steps, wdt float64, w *hermes.WaterSharedVars, n *hermes.NitroSharedVars) {
			l.c.Eval(1)
			if subd == 1 && l.bnSeen && !l.harvestDay && g.AKF.Index == l.bnAkf && (l.fixToday != 0 || g.PESUM != l.bnPesum) {
				// what the crop model fixed today is added to the crop's N content in the N routine of the first
				// sub-step, once: there the content grows by the uptake booked plus exactly that amount (days on which
				// the N routine harvests or cuts the crop are not judged)
				credit := (g.PESUM - l.bnPesum) - (g.AUFNASUM - l.bnAufna)
				if math.Abs(credit-l.fixToday) > relTol(g.PESUM, l.fixToday) {
					l.c.Violate("fixation of the day not credited exactly once", fmt.Sprintf("%s day %d: the crop model fixed %.10g kg N/ha today; the N routine of the first sub-step added %.10g kg N/ha to the crop beyond the booked uptake", l.label, zeit, l.fixToday, credit), nil)
				}
				if l.fixToday > 0 {
					l.nontriv = true
				}
			}
			if subd > 1 {
				// crop N uptake and fixation are credited exactly once per day
				if g.PESUM != l.pesum {
					l.c.Violate("crop-N credited on later sub-step", fmt.Sprintf("%s day %d sub-step %d/%g: crop N content changed by %.10g kg N/ha after the first sub-step (fixation of the day %.6g)", l.label, zeit, subd, steps, g.PESUM-l.pesum, g.SCHNORR), nil)
				}
				if g.AUFNASUM != l.aufna {
					l.c.Violate("uptake counted on later sub-step", fmt.Sprintf("%s day %d sub-step %d: cumulative uptake changed by %.10g", l.label, zeit, subd, g.AUFNASUM-l.aufna), nil)
				}
				if g.NFIXSUM != l.nfixsum {
					l.c.Violate("fixation counted on later sub-step", fmt.Sprintf("%s day %d sub-step %d: cumulative fixation changed by %.10g", l.label, zeit, subd, g.NFIXSUM-l.nfixsum), nil)
				}
				if g.SCHNORR > 0 || g.AUFNASUM > 0 {
					l.nontriv = true
				}
			}
			l.pesum, l.aufna, l.nfixsum = g.PESUM, g.AUFNASUM, g.NFIXSUM
			for z := 0; z < g.N; z++ {
				if !finite(g.C1[z]) || g.C1[z] < 0 {
					l.c.Violate("negative-or-nonfinite C1", fmt.Sprintf("%s day %d sub-step %d: N-min layer %d = %v", l.label, zeit, subd, z+1, g.C1[z]), nil)
				}
			}
		},
		DayEnd: func(g *hermes.GlobalVarsMain, zeit int, steps, wdt float64, cs *hermes.CropSharedVars, w *hermes.WaterSharedVars) {
			// over a day of a growing crop its N content grows by no more than what it took up from the soil plus what it
			// fixed that day (dying organs only lower it)
			if l.cropDay {
				l.c.Eval(1)
				dP, dU, dF := g.PESUM-l.dayPesum, g.AUFNASUM-l.dayAufna, g.NFIXSUM-l.dayNfix
				if dP > dU+dF+relTol(g.PESUM, dU, dF) {
					l.c.Violate("crop-N grows by more than uptake plus fixation", fmt.Sprintf("%s day %d: crop N content +%.10g kg N/ha, uptake of the day %.10g, fixation of the day %.10g", l.label, zeit, dP, dU, dF), nil)
				}
			}
			l.c.Transition(1)
			h := mc.NewHasher().Fs(g.C1[:g.N]).Fs(g.NAOS[:4]).Fs(g.NFOS[:4]).Fs(g.MINAOS[:]).Fs(g.MINFOS[:]).F(g.UMS).F(g.DSUMM).F(g.PESUM)
			l.c.State(h.Sum())
			if l.nontriv || steps > 1 {
				l.c.NonTrivial(h.I(zeit).Sum())
			}
			l.c.Eval(12)
			for z := 0; z < 21; z++ {
				l.nonneg(zeit, "C1", g.C1[z])
				l.nonneg(zeit, "NAOS", g.NAOS[z])
				l.nonneg(zeit, "NFOS", g.NFOS[z])
			}
			for z := range g.MINAOS {
				l.nonneg(zeit, "MINAOS", g.MINAOS[z])
				l.nonneg(zeit, "MINFOS", g.MINFOS[z])
			}
			for name, v := range map[string]float64{"DSUMM": g.DSUMM, "UMS": g.UMS, "NH4Sum": g.NH4Sum, "NH4UMS": g.NH4UMS, "AUFNASUM": g.AUFNASUM, "OUTSUM": g.OUTSUM,
				"DRAINLOSS": g.DRAINLOSS, "CUMDENIT": g.CUMDENIT, "N2onitsum": g.N2onitsum, "N2Odencum": g.N2Odencum, "NFIXSUM": g.NFIXSUM, "PESUM": g.PESUM} {
				l.nonneg(zeit, name, v)
			}
			if g.UMS > g.DSUMM+relTol(g.DSUMM) {
				l.c.Violate("dissolved>applied", fmt.Sprintf("%s day %d: dissolved fertiliser %.10g exceeds applied %.10g", l.label, zeit, g.UMS, g.DSUMM), nil)
			}
			if g.NH4UMS > g.NH4Sum+relTol(g.NH4Sum) {
				l.c.Violate("nitrified>applied", fmt.Sprintf("%s day %d: nitrified ammonium %.10g exceeds applied %.10g", l.label, zeit, g.NH4UMS, g.NH4Sum), nil)
			}
			// below the rooted depth (dead roots and the root residues of a harvest go to rooted layers only) and below the
			// depth a tillage mixes, nothing is added to the organic pools and nothing mineralises
			if g.WURZ > l.rootMax {
				l.rootMax = g.WURZ
			}
			below := max(l.rootMax, (g.IZM+9)/10) // (the mineralisation zone: IZM cm)
			if l.tillDue && l.tillDepth > 0 {
				below = max(below, int(math.Ceil(l.tillDepth/10)))
			}
			if p := os.Getenv("C07_DEBUG"); p != "" && l.harvestDay {
				if f, err := os.OpenFile(p, os.O_APPEND|os.O_CREATE|os.O_WRONLY, 0o644); err == nil {
					fmt.Fprintf(f, "%s day %d harvest rootMax %d wurz %d N %d below %d dNAOS %v\n", l.label, zeit, l.rootMax, g.WURZ, g.N, below, func() []float64 { var d []float64; for z := 0; z < g.N; z++ { d = append(d, g.NAOS[z]-l.naos[z]) }; return d }())
					f.Close()
				}
			}
			for z := below; z < g.N; z++ {
				if g.NAOS[z] != l.naos[z] || g.NFOS[z] != l.nfos[z] {
					l.c.Violate("organic pool changed below the rooted and tilled depth", fmt.Sprintf("%s day %d layer %d: slow pool %.10g -> %.10g, fast pool %.10g -> %.10g kg N/ha, but the deepest rooting depth of the day is %d layers (harvest day: %v) and no tillage reaches the layer",
						l.label, zeit, z+1, l.naos[z], g.NAOS[z], l.nfos[z], g.NFOS[z], l.rootMax, l.harvestDay), nil)
					break
				}
			}
			// organic pools + mineralised counters: only inputs may change the sum
			var inA, inF [21]float64
			L := len(g.MINAOS) // layers for which the counters exist
			if l.fertDue {
				inF[0] += g.NSAS[l.fertIdx]
				inA[0] += g.NLAS[l.fertIdx]
				if d := (g.DSUMM - l.dsumm) - g.NDIR[l.fertIdx]; l.bare && math.Abs(d) > relTol(g.DSUMM) {
					l.c.Violate("fertiliser-applied-amount", fmt.Sprintf("%s day %d: applied mineral fertiliser counter changed by %.10g, fertiliser event has %.10g", l.label, zeit, g.DSUMM-l.dsumm, g.NDIR[l.fertIdx]), nil)
				}
			}
			var dA, dF [21]float64
			for z := 0; z < L; z++ {
				dA[z] = (g.NAOS[z] + g.MINAOS[z]) - (l.naos[z] + l.minaos[z]) - inA[z]
				dF[z] = (g.NFOS[z] + g.MINFOS[z]) - (l.nfos[z] + l.minfos[z]) - inF[z]
			}
			mix := 0
			if l.tillDue && l.tillDepth > 0 && l.tillTyp == 1 {
				mix = int(math.Round(l.tillDepth / 10))
			}
			if mix > 0 && mix <= L {
				// mixing preserves the sums over the tilled depth
				var sA, sF, ref float64
				for z := 0; z < mix; z++ {
					sA += dA[z]
					sF += dF[z]
					ref += math.Abs(l.naos[z]) + math.Abs(l.nfos[z]) + math.Abs(l.minaos[z]) + math.Abs(l.minfos[z])
				}
				if l.bare && !l.harvestDay && (math.Abs(sA) > relTol(ref) || math.Abs(sF) > relTol(ref)) {
					l.c.Violate("tillage-mixing not conservative", fmt.Sprintf("%s day %d: tillage to %g cm changed slow pool+counter by %.6g and fast pool+counter by %.6g kg N/ha", l.label, zeit, l.tillDepth, sA, sF), nil)
				}
				for z := mix; z < L; z++ {
					l.poolLayer(g, zeit, z, dA[z], dF[z])
				}
			} else if mix == 0 {
				for z := 0; z < L; z++ {
					l.poolLayer(g, zeit, z, dA[z], dF[z])
				}
			}
		},
	}
}

func (l *c07Probe) poolLayer(g *hermes.GlobalVarsMain, zeit, z int, dA, dF float64) {
	ma, mf := 0.0, 0.0
	if z < len(l.minaos) {
		ma, mf = l.minaos[z], l.minfos[z]
	}
	tol := relTol(l.naos[z], l.nfos[z], ma, mf)
	if dA < -tol || dF < -tol {
		l.c.Violate("pool+counter decreased", fmt.Sprintf("%s day %d layer %d: slow pool+mineralised counter changed by %.6g, fast by %.6g kg N/ha (mineralisation must move N from pool to counter, not lose it)", l.label, zeit, z+1, dA, dF), nil)
	}
	if l.bare && !l.harvestDay && (dA > tol || dF > tol) {
		l.c.Violate("pool+counter increased without input", fmt.Sprintf("%s day %d layer %d: slow pool+counter changed by %.6g, fast by %.6g kg N/ha on bare soil without any input", l.label, zeit, z+1, dA, dF), nil)
	}
}

func c07Run(raw json.RawMessage, c *mc.Ctx) {
	sp := mc.Decode[c07Spec](raw)
	root := scratchRoot()
	defer os.RemoveAll(root)
	if sp.Long != nil {
		lwRun(c, *sp.Long, root, nil, func(w *lwInfo) *hermes.VerifProbe {
			return (&c07Probe{c: c, label: "long world " + w.Name}).probe()
		})
		return
	}
	ws := words(sp.Alpha, sp.D)
	if sp.Word != nil {
		ws = [][]string{sp.Word}
	}
	warm := sp.Base.WarmUp
	if sp.TillCM2 > 0 && warm < 6 {
		warm = 6
	}
	ndays := 2 + warm + len(ws[0])
	p := e1Project(sp.Base, ndays)
	h0 := p.Rotation[0].Harvest
	first := 2 + warm
	if sp.Fert != "" {
		p.Fert = []proj.Fert{{Date: isoAdd(h0, first-1), Amount: 40, Kind: sp.Fert}}
	}
	if sp.Factor > 0 {
		p.Config["Fertilization"] = fmt.Sprint(sp.Factor - 1)
	}
	if sp.TillCM > 0 && sp.Base.Crop == "" {
		p.Till = []proj.Till{{Date: isoAdd(h0, first-1), Depth: sp.TillCM, Typ: sp.TillTyp}}
		if sp.TillCM2 > 0 {
			// the first two tillages fall into the warm-up (which is lengthened for them), the last one before the word
			p.Till = []proj.Till{{Date: isoAdd(h0, first-5), Depth: sp.TillCM, Typ: sp.TillTyp}, {Date: isoAdd(h0, first-3), Depth: sp.TillCM2, Typ: sp.TillTyp}}
			if sp.TillCM3 > 0 {
				p.Till = append(p.Till, proj.Till{Date: isoAdd(h0, first-1), Depth: sp.TillCM3, Typ: sp.TillTyp})
			}
		}
	}
	p.Weather = e1Weather(warm, ws[0], false)
	p.Write(root)
	for _, w := range ws {
		p.Weather = e1Weather(warm, w, false)
		writeWeather(root, p)
		l := &c07Probe{c: c, label: fmt.Sprintf("word=%v", w), bare: sp.Base.Crop == ""}
		nv := len(c.Viol)
		res := proj.Run(root, p.Args(root), l.probe())
		c.Trace(1)
		switch {
		case res.Panic != "":
			c.Outcome("panic")
			cls := "run-panic"
			if strings.Contains(res.Panic, "index out of range") && sp.TillCM > 40 {
				cls = "run-panic tillage>40cm"
			}
			c.Violate(cls, fmt.Sprintf("run panicked on valid input (tillage %d cm type %d, fertiliser %s, word=%v): %s", sp.TillCM, sp.TillTyp, sp.Fert, w, res.Panic), nil)
		case !res.Success:
			c.Outcome("run-error")
			c.Violate("run-error", fmt.Sprintf("run failed on valid input (word=%v): %s", w, res.Err), nil)
		default:
			c.Outcome("ok")
		}
		if len(c.Viol) > nv && sp.Word == nil {
			one := sp
			one.Word, one.Alpha, one.D = w, nil, 0
			b, _ := json.Marshal(one)
			for i := nv; i < len(c.Viol); i++ {
				c.Viol[i].Spec = b
			}
		}
	}
	c.Sample(map[string]interface{}{"initial_state": sp.Base, "fertiliser": sp.Fert, "tillage_cm": sp.TillCM, "tillage_type": sp.TillTyp, "words": len(ws), "last_word": ws[len(ws)-1]})
}
