package checks

import (
	"encoding/json"
	"fmt"
	"math"
	"os"
	"time"

	"github.com/zalf-rpm/Hermes2Go/hermes"
	"verif/mc"
	"verif/proj"
)

// C02 — mineral-N mass balance closes on every day (and every sub-step of the transport routine).

type c02Spec struct {
	Base   e1Base   `json:"base"`
	Depos  float64  `json:"depos"`
	IrrN   float64  `json:"irr_n"`  // N concentration of the irrigation on the first word day (0 = no irrigation)
	Fert   string   `json:"fert"`   // fertiliser type applied the day before the first word day ("" none)
	Till   int      `json:"till"`   // tillage depth (cm) on the first word day, 0 none (bare soil only)
	Alpha  []string `json:"alpha,omitempty"`
	D      int      `json:"d,omitempty"`
	Word   []string `json:"word,omitempty"`
	Long   *lwSpec  `json:"long,omitempty"` // a long world (long.go) instead of words
	NFrom  int      `json:"n_from,omitempty"` // sub-step sweep: one run per forced sub-step count in [NFrom, NTo]
	NTo    int      `json:"n_to,omitempty"`
}

var c02Alpha = []string{"dry-warm", "rain", "dry-hot-windy", "heavy", "frost", "extreme"}

func c02Specs(tier string, seed int) []c02Spec {
	var out []c02Spec
	// every forced sub-step count (mineralising soil, deposition): the source is applied once whatever the split
	for _, so := range []string{"stony9", "sand20"} {
		for from := 1; from <= 130; from += 10 {
			out = append(out, c02Spec{Base: e1Base{Soil: so, GW: 99, InitW: 1.0, InitN: 30, ET: 3, Start: "2001-05-20"}, Depos: 30, NFrom: from, NTo: min(from+9, 130)})
		}
	}
	type sg struct {
		soil string
		gws  []int
	}
	soils := []sg{{"loam12", []int{99, 4, 12}}, {"sand20", []int{99, 6}}, {"silt5st", []int{99, 2, 5}}, {"two", []int{99, 2}}, {"three", []int{99, 3}},
		{"stony9", []int{99, 5}}, {"peat12", []int{99, 6}}, {"peat5", []int{99, 3}}, {"peat9", []int{99}}, {"peat2", []int{99}}, {"silt20", []int{99, 8}}, {"clay20", []int{99, 12}}, {"expl12", []int{99, 7}}}
	d := 2
	if tier == "thorough" {
		d = 3
	}
	i := 0
	for _, s := range soils {
		n := soilN(s.soil)
		for _, gw := range s.gws {
			drains := [][2]float64{{0, 0}, {2, 0.5}, {float64(min(n, 6)), 1}, {float64(n), 1}}
			for _, dr := range drains {
				for _, iw := range []float64{0.2, 0.9, 1.2} {
					for _, in := range []float64{0, 10, 200} {
						for _, crop := range []string{"", "SW"} {
							// management variants rotate through the grid so that every one meets every soil/gw/drain class
							variants := []c02Spec{
								{Depos: 20},
								{Depos: 60, IrrN: 50},
								{Depos: 0, Fert: "KAS"},
								{Depos: 20, Fert: "RG", Till: 25},
							}
							// tillage depths rotate too (whole and fractional numbers of 10 cm layers)
							// (tillage below the profile bottom is not a valid input: capped at the profile depth)
							variants[3].Till = min([]int{25, 15, 30, 28, 10, 35}[(i/8)%6], 10*n)
							if tier == "quick" {
								// the bare/cropped pair of a grid cell shares one variant (tillage needs bare soil)
								variants = variants[(i/2)%4 : (i/2)%4+1]
							}
							for _, v := range variants {
								i++
								b := e1Base{Soil: s.soil, GW: gw, DrainDep: int(dr[0]), DrainFrac: dr[1], InitW: iw, InitN: in, Crop: crop, ET: 3}
								if crop != "" {
									b.WarmUp = 40
									v.Till = 0
								}
								v.Base, v.Alpha, v.D = b, c02Alpha, d
								mod := 16
								if tier == "thorough" {
									mod = 8
								}
								if i%mod == ((seed%mod)+mod)%mod {
									v.D = d + 1
								}
								out = append(out, v)
							}
						}
					}
				}
			}
		}
	}
	for _, lw := range lwSpecs(tier, seed, false) {
		lw := lw
		if len(soilCat[lwDefs()[lw.World].soil]) > 0 && soilN(lwDefs()[lw.World].soil) >= 2 && !lwDefs()[lw.World].leachAbove {
			out = append(out, c02Spec{Long: &lw})
		}
	}
	return out
}

func init() {
	mc.Register(&mc.Check{
		ID:        "C02",
		Technique: "explicit-state bounded exploration of the real day loop: every weather word up to depth D from a grid of initial states (soil x groundwater x drain x water x N-min x crop x management), N ledger on every sub-step of the transport routine and every day",
		Rule: "scenario = one initial state with all words of Sigma^D; state = (N-min profile, water profile, pools) at a day end; " +
			"non-trivial = day with leaching, drain loss, upward flow, uptake, fertiliser dissolution, several sub-steps or an engaged clamp",
		Assumptions: []string{"scheduled (not automatic) fertilisation, constant groundwater, leaching depth = profile bottom", "tolerance 1e-9 relative (kg N/ha)",
			"the non-negativity clamp is recognised by its signature (layer N-min equal to the post-transport half source term)"},
		Bound: func(t string) string {
			if t == "quick" {
				return "D=2 words over 6 symbols for every initial state (management variant rotating), D=3 on the seed-selected 1/16"
			}
			return "D=3 words over 6 symbols for every initial state x 4 management variants, D=4 on the seed-selected 1/8"
		},
		Budget: func(t string) time.Duration {
			if t == "quick" {
				return 150 * time.Second
			}
			return 45 * time.Minute
		},
		Scenarios: func(tier string, seed int) []json.RawMessage { return mc.Specs(c02Specs(tier, seed)) },
		Run:       c02Run,
	})
}

type c02Ledger struct {
	c       *mc.Ctx
	label   string
	measDay int
	exempt  bool
	// sub-step bookkeeping
	sC, a0, o0, d0 float64
	// day bookkeeping
	dsC                                          float64 // sum C1 at day start
	eC                                           float64 // sum C1 after Evatra (after deposition / irrigation N)
	ums0, mina0, minf0, n2o0, auf0, out0, dl0, den0 float64
	expectIn                                     float64
	clampLayers                                  int
	interesting                                  bool
	unstableKey                                  string
	irrDay                                       int
	irrN                                         float64
	exemptDays                                   map[int]bool    // further measurement days; days after the annual output date
	irrNs                                        map[int]float64 // further irrigation days: kg N/ha entering with the water
	sumWdt                                       float64 // summed length of the day's executed sub-steps
	irrPair                                      map[int][]float64 // days with several irrigation events: kg N/ha of each (the model applies one event per day or all of them; the N entering must be the N of the events it applied)
}

func sumN(v []float64, n int) float64 {
	s := 0.0
	for i := 0; i < n && i < len(v); i++ {
		s += v[i]
	}
	return s
}

func (l *c02Ledger) probe() *hermes.VerifProbe {
	return &hermes.VerifProbe{
		DayStart: func(g *hermes.GlobalVarsMain, zeit int) {
			l.exempt = zeit <= l.measDay || l.exemptDays[zeit]
			l.dsC = sumN(g.C1[:], g.N)
			l.clampLayers = 0
			l.interesting = false
			l.sumWdt = 0
		},
		AfterEvatra: func(g *hermes.GlobalVarsMain, zeit int, w *hermes.WaterSharedVars) {
			l.eC = sumN(g.C1[:], g.N)
			l.sC, l.a0, l.o0, l.d0 = l.eC, g.AUFNASUM, g.OUTSUM, g.DRAINLOSS
			l.ums0, l.mina0, l.minf0, l.n2o0 = g.UMS, sumN(g.MINAOS[:], len(g.MINAOS)), sumN(g.MINFOS[:], len(g.MINFOS)), g.N2onitsum
			l.auf0, l.out0, l.dl0, l.den0 = g.AUFNASUM, g.OUTSUM, g.DRAINLOSS, g.CUMDENIT
			if l.exempt {
				return
			}
			// surface inputs of the day: deposition and N in irrigation water
			in := g.DEPOS / 365 * g.DT.Num
			if zeit == l.irrDay {
				in += l.irrN
				l.interesting = true
			}
			if v, ok := l.irrNs[zeit]; ok {
				in += v
				l.interesting = true
			}
			if evs, ok := l.irrPair[zeit]; ok {
				// the N that entered must be the N of a subset of the day's events
				l.interesting = true
				got := (l.eC - l.dsC) - in
				best := math.Inf(1)
				for m := 0; m < 1<<len(evs); m++ {
					sum := 0.0
					for i, v := range evs {
						if m&(1<<i) != 0 {
							sum += v
						}
					}
					if d := math.Abs(got - sum); d < best {
						best = d
					}
				}
				l.c.Eval(1)
				if best > relTol(l.eC, l.dsC, in, got) {
					l.c.Violate("surface-input same-day-irrigations", fmt.Sprintf("%s day %d: N-min changed by %.12g kg N/ha beyond deposition through irrigation, the day's events carry %v kg N/ha (no combination of them gives that amount)", l.label, zeit, got, evs), nil)
				}
				return
			}
			l.c.Eval(1)
			if d := (l.eC - l.dsC) - in; math.Abs(d) > relTol(l.eC, l.dsC, in) {
				l.c.Violate("surface-input", fmt.Sprintf("%s day %d: N-min changed by %.12g before transport, deposition+irrigation N is %.12g", l.label, zeit, l.eC-l.dsC, in), nil)
			}
		},
		SubStep: func(g *hermes.GlobalVarsMain, zeit, subd int, steps, wdt float64, w *hermes.WaterSharedVars, n *hermes.NitroSharedVars) {
			N := g.N
			l.sumWdt += wdt
			s1 := sumN(g.C1[:], N)
			dn := sumN(g.DN[:], N) * wdt
			res := (s1 - l.sC) + (g.AUFNASUM - l.a0) - dn + (g.OUTSUM - l.o0) + (g.DRAINLOSS - l.d0)
			tol := relTol(s1, l.sC, g.AUFNASUM-l.a0, dn, g.OUTSUM-l.o0, g.DRAINLOSS-l.d0)
			clamped := 0
			for z := 0; z < N; z++ {
				if g.C1[z] == math.Max(g.DN[z]*wdt/2, 0) {
					clamped++
				}
			}
			l.clampLayers += clamped
			if clamped > 0 && res > tol {
				l.c.Count("substeps_clamp_added_N", 1)
			}
			if g.QDRAIN > 0 {
				l.c.Count("substeps_drain_flow", 1)
				if g.Q1[g.DRAIDEP] < 0 {
					l.c.Count("substeps_drain_flow_with_upward_flux", 1)
				}
			}
			if g.Q1[N] < 0 {
				l.c.Count("substeps_upward_bottom_flux", 1)
			}
			if g.C1NotStable != "" {
				l.c.Count("substeps_flagged_unstable", 1)
				if os.Getenv("C02_DEBUG") != "" {
					fmt.Printf("UNSTABLE %s day %d substep %d\n", l.label, zeit, subd)
				}
			}
			if g.AUFNASUM > l.a0 {
				l.c.Count("substeps_with_uptake", 1)
			}
			if g.QDRAIN > 0 || g.Q1[N] != 0 || g.AUFNASUM > l.a0 || steps > 1 || clamped > 0 || dn != 0 {
				l.interesting = true
			}
			l.c.Eval(1)
			if !l.exempt {
				upward := false
				for z := 1; z <= N; z++ {
					if g.Q1[z] < 0 {
						upward = true
					}
				}
				cls := ""
				if upward {
					cls = " upward-flow"
				}
				if g.QDRAIN > 0 {
					cls += " drain-flow"
				}
				switch {
				case res < -tol:
					l.c.Violate("transport removes N"+cls, fmt.Sprintf("%s day %d sub-step %d/%g: N-min + uptake + leaching + drain loss - source changed by %.6g kg N/ha (N lost)", l.label, zeit, subd, steps, res), nil)
				case res > tol && clamped == 0:
					l.c.Violate("transport creates N"+cls, fmt.Sprintf("%s day %d sub-step %d/%g: N-min + uptake + leaching + drain loss - source changed by +%.6g kg N/ha without the clamp being engaged (drain %.4g cm, Q1[drain]=%.4g)",
						l.label, zeit, subd, steps, res, g.QDRAIN, g.Q1[g.DRAIDEP]), nil)
				case res > 1.5*float64(clamped)+tol && g.C1NotStableErr == "":
					l.c.Violate("clamp not flagged", fmt.Sprintf("%s day %d sub-step %d: clamp added %.6g kg N/ha in %d layers but the run is not flagged unstable", l.label, zeit, subd, res, clamped), nil)
				}
			}
			l.sC, l.a0, l.o0, l.d0 = s1, g.AUFNASUM, g.OUTSUM, g.DRAINLOSS
		},
		DayEnd: func(g *hermes.GlobalVarsMain, zeit int, steps, wdt float64, cs *hermes.CropSharedVars, w *hermes.WaterSharedVars) {
			N := g.N
			l.c.Transition(1)
			h := mc.NewHasher().Fs(g.C1[:N]).Fs(g.WG[1][:N]).Fs(g.NAOS[:4]).Fs(g.NFOS[:4]).F(g.UMS)
			l.c.State(h.Sum())
			if l.interesting {
				l.c.NonTrivial(h.I(zeit).Sum())
			}
			if l.exempt {
				return
			}
			s1 := sumN(g.C1[:], N)
			l.c.Eval(2)
			peat := len(g.BART[0]) > 0 && g.BART[0][0] == 'H'
			cls := ""
			if peat {
				cls = " peat"
			}
			if N < 3 {
				cls += " N<3"
			} else if N < 9 && peat {
				cls += " N<9"
			}
			// (a) the source term handed to the transport routine is what the pools and counters say
			src := (g.UMS - l.ums0) + (sumN(g.MINAOS[:], len(g.MINAOS)) - l.mina0) + (sumN(g.MINFOS[:], len(g.MINFOS)) - l.minf0) - (g.N2onitsum - l.n2o0)
			dn := sumN(g.DN[:], N)
			if d := dn - src; math.Abs(d) > relTol(dn, src, g.UMS, l.mina0, l.minf0) {
				l.c.Violate("source-term"+cls, fmt.Sprintf("%s day %d: source term of the transport %.10g kg N/ha, but dissolved fertiliser + net mineralisation - nitrification N2O = %.10g", l.label, zeit, dn, src), nil)
			}
			// (a2) the day's source term is handed out in portions of sub-step length: over the day exactly once
			if applied := dn * l.sumWdt; math.Abs(applied-dn) > relTol(dn, applied) {
				l.c.Violate("source-term applied over the sub-steps"+cls, fmt.Sprintf("%s day %d: the day's source term is %.10g kg N/ha, but %g sub-steps of %.17g d (%.17g d in total) applied %.10g", l.label, zeit, dn, steps, wdt, l.sumWdt, applied), nil)
			}
			// (b) denitrification removes from the profile exactly what it books
			den := g.CUMDENIT - l.den0
			res := (s1 - l.sC) + den
			tol := relTol(s1, l.sC, den)
			switch {
			case res < -tol:
				l.c.Violate("denitrification removes more than booked"+cls, fmt.Sprintf("%s day %d: profile N-min changed by %.10g in the denitrification step, booked %.10g", l.label, zeit, s1-l.sC, den), nil)
			case res > tol:
				l.c.Violate("denitrification books more than removed"+cls, fmt.Sprintf("%s day %d: profile N-min changed by %.10g in the denitrification step, booked %.10g (%.6g kg N/ha counted as lost but still in the soil or taken from outside the profile)", l.label, zeit, s1-l.sC, den, res), nil)
			}
		},
	}
}

func c02Run(raw json.RawMessage, c *mc.Ctx) {
	sp := mc.Decode[c02Spec](raw)
	root := scratchRoot()
	defer os.RemoveAll(root)
	if sp.NTo > 0 {
		substepSweep(sp.Base, sp.NFrom, sp.NTo, c, root, func(n int, rainMM float64, p *proj.Project, start int) {
			l := &c02Ledger{c: c, measDay: start + 1, label: fmt.Sprintf("sub-step sweep n=%d rain=%gmm", n, rainMM), irrDay: -1}
			nv := len(c.Viol)
			res := proj.Run(root, p.Args(root, fmt.Sprintf("NDeposition=%g", sp.Depos)), l.probe())
			c.Trace(1)
			if res.Panic != "" || !res.Success {
				c.Outcome("run-error")
				c.Violate("run-error", fmt.Sprintf("run failed on valid input (sub-step sweep n=%d): %s %s", n, res.Err, res.Panic), nil)
			} else {
				c.Outcome("ok sweep")
			}
			if len(c.Viol) > nv && sp.NFrom != sp.NTo {
				one := sp
				one.NFrom, one.NTo = n, n
				b, _ := json.Marshal(one)
				for i := nv; i < len(c.Viol); i++ {
					c.Viol[i].Spec = b
				}
			}
		})
		c.Sample(map[string]interface{}{"sweep": sp.Base, "n_from": sp.NFrom, "n_to": sp.NTo})
		return
	}
	if sp.Long != nil {
		w := lwBuild(*sp.Long)
		w.P.Config["NDeposition"] = "25"
		w.P.Write(root)
		ex := map[int]bool{}
		for d := range w.Exempt {
			ex[d] = true
		}
		// the day after the annual output date (1 January): counters are reset
		for y := 2001; y <= 2006; y++ {
			ex[proj.ZEIT(proj.D(fmt.Sprintf("%d-01-02", y)))] = true
		}
		l := &c02Ledger{c: c, measDay: w.Start, exemptDays: ex, irrNs: w.IrrN, label: "long world " + w.Name, irrDay: -1}
		res := proj.Run(root, w.P.Args(root), l.probe())
		c.Trace(1)
		switch {
		case res.Panic != "":
			c.Violate("run-panic", fmt.Sprintf("run panicked on valid input (long world %s): %s", w.Name, res.Panic), nil)
		case !res.Success:
			c.Violate("run-error", fmt.Sprintf("run failed on valid input (long world %s): %s", w.Name, res.Err), nil)
		default:
			c.Outcome("ok long world")
		}
		c.Sample(map[string]interface{}{"long_world": w.Name, "days": w.Days})
		return
	}
	ws := words(sp.Alpha, sp.D)
	if sp.Word != nil {
		ws = [][]string{sp.Word}
	}
	warm := sp.Base.WarmUp
	ndays := 2 + warm + len(ws[0])
	p := e1Project(sp.Base, ndays)
	p.Config["NDeposition"] = fmt.Sprint(sp.Depos)
	h0 := p.Rotation[0].Harvest
	first := 2 + warm // offset of the first word day
	l0 := &c02Ledger{}
	if sp.IrrN > 0 {
		p.Irr = []proj.Irr{{Date: isoAdd(h0, first), MM: 20, NConc: sp.IrrN}}
		l0.irrDay = proj.ZEIT(proj.D(h0)) + first
		l0.irrN = sp.IrrN * 20 * 0.01
		if sp.Base.DrainDep > 0 { // part of the irrigated scenarios: a second line for the same day
			p.Irr = append(p.Irr, proj.Irr{Date: isoAdd(h0, first), MM: 15, NConc: 30})
			l0.irrPair = map[int][]float64{l0.irrDay: {l0.irrN, 30 * 15 * 0.01}}
			l0.irrDay = -1
		}
	}
	if sp.Fert != "" {
		amt := 80.0
		if sp.Fert == "RG" {
			amt = 30
		}
		p.Fert = []proj.Fert{{Date: isoAdd(h0, first-1), Amount: amt, Kind: sp.Fert}}
	}
	if sp.Till > 0 {
		p.Till = []proj.Till{{Date: isoAdd(h0, first), Depth: sp.Till, Typ: 1}}
	}
	p.Weather = e1Weather(warm, ws[0], false)
	p.Write(root)
	start := proj.ZEIT(proj.D(h0))
	for _, w := range ws {
		p.Weather = e1Weather(warm, w, false)
		writeWeather(root, p)
		l := &c02Ledger{c: c, measDay: start + 1, label: fmt.Sprintf("word=%v", w), irrDay: l0.irrDay, irrN: l0.irrN, irrPair: l0.irrPair, unstableKey: fmt.Sprintf("%s gw=%d drain=%d/%g w=%g n=%g crop=%s fert=%s word=%v", sp.Base.Soil, sp.Base.GW, sp.Base.DrainDep, sp.Base.DrainFrac, sp.Base.InitW, sp.Base.InitN, sp.Base.Crop, sp.Fert, w)}
		nv := len(c.Viol)
		res := proj.Run(root, p.Args(root), l.probe())
		c.Trace(1)
		switch {
		case res.Panic != "":
			c.Outcome("panic")
			c.Violate("run-panic", fmt.Sprintf("run panicked on valid input (word=%v): %s", w, res.Panic), nil)
		case !res.Success:
			c.Outcome("run-error")
			c.Violate("run-error", fmt.Sprintf("run failed on valid input (word=%v): %s", w, res.Err), nil)
		default:
			c.Outcome("ok")
		}
		if len(c.Viol) > nv && sp.Word == nil {
			one := sp
			one.Word, one.Alpha, one.D = w, nil, 0
			b, _ := json.Marshal(one)
			for i := nv; i < len(c.Viol); i++ {
				c.Viol[i].Spec = b
			}
		}
	}
	c.Sample(map[string]interface{}{"initial_state": sp.Base, "deposition": sp.Depos, "irrigation_N": sp.IrrN, "fertiliser": sp.Fert, "tillage_cm": sp.Till, "words": len(ws), "last_word": ws[len(ws)-1]})
}
