package checks

import (
	"strings"
	"encoding/json"
	"fmt"
	"math"
	"os"
	"time"

	"github.com/zalf-rpm/Hermes2Go/hermes"
	"verif/mc"
	"verif/proj"
)

// C20 — groundwater level follows the supplied series (interpolation / nearest value) or the min/max sinusoid.

type c20Spec struct {
	Days int    `json:"days,omitempty"` // series: length of the run (default 20 days)
	Kind string `json:"kind"` // func | series | sinus
	// func: all subsets with this first timestamp bit set pattern range
	MaskFrom int `json:"mask_from,omitempty"`
	MaskTo   int `json:"mask_to,omitempty"`
	Pattern  int `json:"pattern,omitempty"`
	// series run
	Format string  `json:"format,omitempty"`
	Offs   []int   `json:"offs,omitempty"` // series dates as offsets from the simulation start
	Vals   []float64 `json:"vals,omitempty"`
	Shape  int       `json:"shape,omitempty"` // layout of the series file: 0 our rows only; 1 rows of another id interleaved (file ordered by date); 2 another id's block before and after ours; 3 every row of ours listed twice; 4 another id first, ours interleaved with a third id
	// sinus run
	GH, GL, Phase int
}

func c20Vals(pattern, i int) float64 {
	switch pattern {
	case 0:
		return float64(3 + i) // rising
	case 1:
		return float64(18 - 2*i) // falling
	case 3:
		return []float64{5, 5, 9, 9, 9, 3, 3, 12, 12, 6}[i] // resting phases: repeated readings, then a change
	}
	return []float64{7, 2.5, 11, 2.5, 30, 4, 4, 9.75, 1, 15}[i] // zig-zag with equal neighbours
}

func init() {
	mc.Register(&mc.Check{
		ID:        "C20",
		Technique: "exhaustive enumeration: all non-empty subsets of a 10-day window as series x value patterns x all query dates on the real interpolation function; whole runs reading series files in all date formats and all integer min/max pairs x phases over a full year, level compared on every day",
		Rule: "func scenarios: every subset of a 10-day window (1023) x 4 value patterns (rising, falling, zig-zag, resting phases) x 16 query dates; series scenarios: gap/position classes x 4 date formats through gw_*.csv and the real run; sinus scenarios: integer GH<=GL in 1..20 x 4 phases, 366+ days each; " +
			"case = (series, query date) or (min, max, phase, day); non-trivial = interpolated or extrapolated query, or sinusoid with GH<GL",
		Assumptions: []string{"reference: piecewise-linear interpolation with nearest-value extrapolation, tolerance 1e-9 relative", "sinusoid reference: mean - amplitude*sin((day of year + phase) pi/180) as documented in the configuration comment"},
		Bound:       func(t string) string { return "complete for the stated finite spaces (both tiers; thorough adds longer series windows and GH from 0)" },
		Budget: func(t string) time.Duration {
			if t == "quick" {
				return 150 * time.Second
			}
			return 30 * time.Minute
		},
		Scenarios: func(tier string, seed int) []json.RawMessage {
			var out []c20Spec
			for pat := 0; pat < 4; pat++ {
				for from := 1; from < 1024; from += 64 {
					out = append(out, c20Spec{Kind: "func", MaskFrom: from, MaskTo: min(from+63, 1023), Pattern: pat})
				}
			}
			series := [][]int{{-5}, {3}, {40}, {-5, 4}, {0, 1, 2, 3}, {2, 9}, {-30, -20}, {20, 30}, {1, 2, 4, 8, 16}, {-3, 0, 5, 6, 12, 13}, {5, 5 + 366}, {0, 4, 9, 13, 17}, {-6, -2, 3, 8, 12, 15, 18}}
			for _, f := range []string{"DateDElong", "DateENlong", "DateDEshort", "DateENshort"} {
				for si, offs := range series {
					for pat := 0; pat < 4; pat++ {
						var v []float64
						for i := range offs {
							v = append(v, c20Vals(pat, (i+si)%10))
						}
						out = append(out, c20Spec{Kind: "series", Format: f, Offs: offs, Vals: v})
						if len(offs) > 1 {
							// the same series inside files that also hold other ids or repeat rows (shape rotates)
							out = append(out, c20Spec{Kind: "series", Format: f, Offs: offs, Vals: v, Shape: 1 + (si+pat)%4})
						}
					}
				}
			}
			// readings years apart: every subset of 7 dates over four years (whole calendar years without a reading, gaps of
			// more than a year, a run that goes on for years behind the last reading)
			cand := []int{-5, 40, 300, 420, 800, 1100, 1460}
			for m := 1; m < 1<<len(cand); m++ {
				var offs []int
				var v []float64
				for i, o := range cand {
					if m&(1<<i) != 0 {
						offs = append(offs, o)
						v = append(v, c20Vals(m%4, (i+m)%10))
					}
				}
				out = append(out, c20Spec{Kind: "series", Format: []string{"DateDElong", "DateENlong", "DateDEshort", "DateENshort"}[m%4], Offs: offs, Vals: v, Days: 1520, Shape: []int{0, 0, 1, 4}[m%4] * min(1, len(offs)-1)})
			}
			lo := 1
			if tier == "thorough" {
				lo = 0
			}
			for gh := lo; gh <= 20; gh++ {
				for gl := gh; gl <= 20; gl++ {
					if gl == 0 {
						continue // (0, 0) in the polygon file means "no groundwater given"
					}
					for _, ph := range []int{0, 80, 180, 300} {
						out = append(out, c20Spec{Kind: "sinus", GH: gh, GL: gl, Phase: ph})
					}
				}
			}
			return mc.Specs(out)
		},
		Run: c20Run,
	})
}

// refLevel is the boring reference: exact hit, linear interpolation between neighbours, nearest value outside.
func refLevel(ts []int, vals []float64, q int) float64 {
	if q <= ts[0] {
		return vals[0]
	}
	if q >= ts[len(ts)-1] {
		return vals[len(vals)-1]
	}
	for i := 0; i+1 < len(ts); i++ {
		if q == ts[i] {
			return vals[i]
		}
		if q > ts[i] && q < ts[i+1] {
			return vals[i] + (vals[i+1]-vals[i])*float64(q-ts[i])/float64(ts[i+1]-ts[i])
		}
	}
	return vals[len(vals)-1]
}

func c20Run(raw json.RawMessage, c *mc.Ctx) {
	sp := mc.Decode[c20Spec](raw)
	switch sp.Kind {
	case "func":
		base := 36000
		for mask := sp.MaskFrom; mask <= sp.MaskTo; mask++ {
			var ts []int
			var vals []float64
			g := hermes.NewGlobalVarsMain()
			g.GWTimeSeriesValues = map[int]float64{}
			for i := 0; i < 10; i++ {
				if mask&(1<<i) != 0 {
					ts = append(ts, base+i)
					vals = append(vals, c20Vals(sp.Pattern, i))
					g.GWTimeSeriesValues[base+i] = c20Vals(sp.Pattern, i)
					g.GWTimestamps = append(g.GWTimestamps, base+i)
				}
			}
			c.Trace(1)
			for q := base - 3; q <= base+12; q++ {
				got, err := hermes.GetGroundWaterLevel(&g, q)
				want := refLevel(ts, vals, q)
				c.Eval(1)
				c.Transition(1)
				h := mc.NewHasher().I(mask).I(sp.Pattern).I(q)
				c.State(h.Sum())
				if _, hit := g.GWTimeSeriesValues[q]; !hit {
					c.NonTrivial(h.Sum())
				}
				if err != nil {
					c.Violate("func-error", fmt.Sprintf("series %v: query %d returned error %v", ts, q, err), nil)
					continue
				}
				if math.Abs(got-want) > relTol(want) {
					cls := "func-interpolation"
					if q < ts[0] || q > ts[len(ts)-1] {
						cls = "func-extrapolation"
					}
					c.Violate(cls, fmt.Sprintf("series dates %v values %v: level on day %d is %.10g, reference %.10g", ts, vals, q, got, want), nil)
				}
				lo, hi := math.Inf(1), math.Inf(-1)
				for _, v := range vals {
					lo, hi = math.Min(lo, v), math.Max(hi, v)
				}
				if got < lo-1e-9 || got > hi+1e-9 {
					c.Violate("func-outside-range", fmt.Sprintf("series %v %v: level %.10g on day %d outside [%g,%g]", ts, vals, got, q, lo, hi), nil)
				}
			}
		}
		c.Outcome("func-ok")
		c.Sample(map[string]interface{}{"kind": "func", "subset_masks": []int{sp.MaskFrom, sp.MaskTo}, "pattern": sp.Pattern})
	case "series", "sinus":
		root := scratchRoot()
		defer os.RemoveAll(root)
		ndays := 20
		if sp.Days > 0 {
			ndays = sp.Days
		}
		if sp.Kind == "sinus" {
			ndays = 412 // 20.11.2003 - 4.1.2005: a whole leap year including its 366th day, and the year changes on both sides
		}
		b := e1Base{Soil: "loam12", GW: 99, InitW: 0.6, InitN: 10, ET: 3, Start: "2003-11-20"}
		if sp.Kind == "sinus" {
			b.Soil = "sand20"
		}
		p := e1Project(b, ndays)
		p.Config["Dateformat"] = "DateDElong"
		h0 := p.Rotation[0].Harvest
		start := proj.ZEIT(proj.D(h0))
		var ts []int
		if sp.Kind == "series" {
			p.Config["GroundWaterFrom"] = "gwTimeSeries"
			p.Config["Dateformat"] = sp.Format
			p.Config["EndDate"] = proj.DateStr(sp.Format, proj.D(h0).AddDate(0, 0, ndays-1))
			for i, o := range sp.Offs {
				p.GWSeries = append(p.GWSeries, proj.GWPoint{Date: isoAdd(h0, o), Level: sp.Vals[i]})
				ts = append(ts, start+o)
			}
		} else {
			p.Config["GroundWaterFrom"] = "polygonfile"
			p.Config["GroundWaterPhase"] = fmt.Sprint(sp.Phase)
			p.GWHi, p.GWLo = sp.GH, sp.GL
			// the soil file still carries a groundwater level of its own (7 dm), which this source must not use;
			// every second scenario reads the soil from the fixed-width text file
			p.Soil.GW = 7
			if (sp.GH+sp.GL+sp.Phase/10)%2 == 1 {
				p.Config["SoilFileExtension"] = "txt"
				p.Files = map[string]string{"soil_" + p.ID + ".txt": c13SoilTxt(p)}
			}
		}
		if sp.Kind == "series" && sp.Shape > 0 {
			ds := func(iso string) string { return proj.DateStr(sp.Format, proj.D(iso)) }
			var rows []string
			ours := func(i int) string { return fmt.Sprintf("%s,%s,%g", p.SoilID, ds(p.GWSeries[i].Date), p.GWSeries[i].Level) }
			other := func(id string, i int) string { return fmt.Sprintf("%s,%s,%g", id, ds(isoAdd(p.GWSeries[i].Date, 0)), 40-p.GWSeries[i].Level) }
			n := len(p.GWSeries)
			switch sp.Shape {
			case 1:
				for i := 0; i < n; i++ {
					rows = append(rows, other([]string{"777", p.SoilID + "7"}[i%2], i), ours(i))
				}
			case 2:
				for i := 0; i < n; i++ {
					rows = append(rows, other("000", i))
				}
				for i := 0; i < n; i++ {
					rows = append(rows, ours(i))
				}
				for i := 0; i < n; i++ {
					rows = append(rows, other("999", i))
				}
			case 3:
				for i := 0; i < n; i++ {
					rows = append(rows, ours(i), ours(i))
				}
			case 4:
				rows = append(rows, other("000", 0))
				for i := 0; i < n; i++ {
					rows = append(rows, ours(i), other(p.SoilID+"0", i)) // an id that begins with ours
				}
			}
			p.Files = map[string]string{"gw_" + p.ID + ".csv": "SID,Date,Level\n" + strings.Join(rows, "\n") + "\n"}
		}
		word := make([]string, ndays-2)
		for i := range word {
			word[i] = "mild"
		}
		p.Weather = e1Weather(0, word, false)
		p.Write(root)
		minL, maxL := math.Inf(1), math.Inf(-1)
		pr := &hermes.VerifProbe{AfterEvatra: func(g *hermes.GlobalVarsMain, zeit int, w *hermes.WaterSharedVars) {
			c.Eval(1)
			c.Transition(1)
			h := mc.NewHasher().S(sp.Kind).F(g.GRW).I(zeit)
			c.State(h.Sum())
			if sp.Kind == "series" {
				want := refLevel(ts, sp.Vals, zeit)
				if _, hit := g.GWTimeSeriesValues[zeit]; !hit {
					c.NonTrivial(h.Sum())
				}
				if math.Abs(g.GRW-want) > relTol(want) {
					c.Violate(fmt.Sprintf("run-series-level %s file-shape=%d", sp.Format, sp.Shape), fmt.Sprintf("series offsets %v values %v (%s): level used on day start+%d is %.10g, reference %.10g", sp.Offs, sp.Vals, sp.Format, zeit-start, g.GRW, want), nil)
				}
			} else {
				doy := float64(proj.FromZEIT(zeit).YearDay()) // the calendar's day of year, not the model's own counter
				mean, ampl := float64(sp.GH+sp.GL)/2, float64(sp.GL-sp.GH)/2
				want := mean - ampl*math.Sin((doy+float64(sp.Phase))*math.Pi/180)
				if sp.GH < sp.GL {
					c.NonTrivial(h.Sum())
				}
				if g.GRW < float64(sp.GH)-1e-9 || g.GRW > float64(sp.GL)+1e-9 {
					c.Violate("sinus-outside-interval", fmt.Sprintf("GH=%d GL=%d phase=%d: level %.10g on day of year %g leaves the interval", sp.GH, sp.GL, sp.Phase, g.GRW, doy), nil)
				}
				if math.Abs(g.GRW-want) > relTol(want) {
					c.Violate("sinus-level", fmt.Sprintf("GH=%d GL=%d phase=%d: level %.10g on day of year %g, reference %.10g", sp.GH, sp.GL, sp.Phase, g.GRW, doy, want), nil)
				}
				minL, maxL = math.Min(minL, g.GRW), math.Max(maxL, g.GRW)
			}
		}}
		res := proj.Run(root, p.Args(root), pr)
		c.Trace(1)
		if !res.Success || res.Panic != "" {
			c.Outcome("run-error")
			c.Violate("run-error "+sp.Kind, fmt.Sprintf("run failed on valid input %+v: %s %s", sp, res.Err, res.Panic), nil)
			return
		}
		if sp.Kind == "sinus" {
			// over a full year the level oscillates over (nearly) the whole interval around the mean
			ampl := float64(sp.GL-sp.GH) / 2
			if maxL < float64(sp.GL)-0.001*ampl-1e-9 || minL > float64(sp.GH)+0.001*ampl+1e-9 {
				c.Violate("sinus-no-oscillation", fmt.Sprintf("GH=%d GL=%d phase=%d: over a year the level only covered [%.6g, %.6g]", sp.GH, sp.GL, sp.Phase, minL, maxL), nil)
			}
		}
		c.Outcome(sp.Kind + "-ok")
		c.Sample(sp)
	}
}
