package checks

import (
	"encoding/json"
	"os"
	"testing"

	"verif/mc"
)

// TestReplay re-executes one recorded violation (a file under /verif/replays) as a plain unit test, without the
// enumerator: VERIF_REPLAY=<file> go test -tags verif ./checks -run TestReplay   (see /verif/replay_test.sh)
func TestReplay(t *testing.T) {
	file := os.Getenv("VERIF_REPLAY")
	if file == "" {
		t.Skip("VERIF_REPLAY not set")
	}
	b, err := os.ReadFile(file)
	if err != nil {
		t.Fatal(err)
	}
	var v mc.Violation
	if err := json.Unmarshal(b, &v); err != nil {
		t.Fatal(err)
	}
	chk := mc.Get(v.Property)
	if chk == nil {
		t.Fatalf("unknown check %s", v.Property)
	}
	if rc := mc.ReplayMain(chk, "quick", 0, file, false); rc != 0 {
		t.Fatalf("violation of %s reproduced: %s: %s", v.Property, v.Class, v.What)
	}
}
