package checks

import (
	"fmt"
	"math"
	"os"
	"path/filepath"
	"time"

	"verif/mc"
	"verif/proj"
)

// ---- weather day alphabet (values exactly representable in the CSV) ---------------------------

var sigma = map[string]proj.Day{
	"dry-warm":      {Tmin: 12, Tavg: 18, Tmax: 24, Precip: 0, Rad: 20, Wind: 2, RH: 60, Sun: 10, ET0: 4.5},
	"dry-hot-windy": {Tmin: 20, Tavg: 28, Tmax: 36, Precip: 0, Rad: 28, Wind: 6, RH: 30, Sun: 14, ET0: 9},
	"frost":         {Tmin: -12, Tavg: -7.5, Tmax: -3, Precip: 0, Rad: 4, Wind: 2, RH: 80, Sun: 3, ET0: 0.2},
	"deep-frost":    {Tmin: -35, Tavg: -30, Tmax: -25, Precip: 0, Rad: 2, Wind: 1, RH: 85, Sun: 1, ET0: 0.1},
	"drizzle":       {Tmin: 8, Tavg: 11, Tmax: 14, Precip: 2, Rad: 6, Wind: 3, RH: 90, Sun: 1, ET0: 1},
	"rain":          {Tmin: 10, Tavg: 13, Tmax: 16, Precip: 15, Rad: 5, Wind: 3, RH: 95, Sun: 0.5, ET0: 0.8},
	"heavy":         {Tmin: 12, Tavg: 15, Tmax: 18, Precip: 60, Rad: 4, Wind: 4, RH: 98, Sun: 0, ET0: 0.5},
	"extreme":       {Tmin: 14, Tavg: 16, Tmax: 18, Precip: 250, Rad: 3, Wind: 5, RH: 99, Sun: 0, ET0: 0.4},
	"calm-dark":     {Tmin: 4, Tavg: 6, Tmax: 8, Precip: 0, Rad: 0, Wind: 0.1, RH: 95, Sun: 2, ET0: 0.3},
	"no-sun-no-rad": {Tmin: 4, Tavg: 6, Tmax: 8, Precip: 0, Rad: 0, Wind: 1, RH: 95, Sun: 0, ET0: 0.3},
	"mild":          {Tmin: 6, Tavg: 10, Tmax: 14, Precip: 1, Rad: 10, Wind: 2.5, RH: 75, Sun: 5, ET0: 1.5},
	"zero-flux":     {Tmin: -1, Tavg: 0.5, Tmax: 2, Precip: 0, Rad: 0.5, Wind: 1, RH: 100, Sun: 0, ET0: 0}, // saturated air, hardly any radiation: potential ET is clipped to 0
	"hot-shower":    {Tmin: 18, Tavg: 26, Tmax: 34, Precip: 2.5, Rad: 26, Wind: 5, RH: 35, Sun: 12, ET0: 8},
	// reference ET of the per-year weather files missing (the missing-value code) / a small negative reading / a very large one
	"et0-missing":  {Tmin: 12, Tavg: 18, Tmax: 24, Precip: 0, Rad: 20, Wind: 2, RH: 60, Sun: 10, ET0: -99.9},
	"et0-negative": {Tmin: 2, Tavg: 5, Tmax: 8, Precip: 0, Rad: 3, Wind: 2, RH: 95, Sun: 1, ET0: -0.25},
	"et0-huge":     {Tmin: 22, Tavg: 30, Tmax: 38, Precip: 0, Rad: 30, Wind: 8, RH: 20, Sun: 14, ET0: 14},
	"grow":          {Tmin: 10, Tavg: 16, Tmax: 22, Precip: 3, Rad: 18, Wind: 2, RH: 70, Sun: 8, ET0: 3},
}

// ---- soil catalogue ---------------------------------------------------------------------------

func hz(tex string, lower, bd, stone int, corg float64) proj.Horizon {
	return proj.Horizon{Tex: tex, Lower: lower, BD: bd, Stone: stone, Corg: corg, CN: 10}
}

var soilCat = map[string][]proj.Horizon{
	"sand20":   {hz("SS", 3, 3, 0, 0.8), hz("SS", 20, 3, 0, 0.2)},
	"loam12":   {hz("SL4", 3, 3, 0, 1.2), hz("LT3", 12, 4, 0, 0.4)},
	"silt5st":  {hz("UU", 2, 1, 30, 2.0), hz("TT", 5, 5, 30, 0.5)},
	"stony9":   {hz("SL2", 3, 3, 75, 0.9), hz("SS", 9, 3, 75, 0.2)},
	"one":      {hz("SL3", 1, 3, 0, 1.0)},
	"two":      {hz("LS3", 2, 2, 0, 1.5)},
	"three":    {hz("UT3", 1, 2, 0, 1.5), hz("TU3", 2, 3, 10, 0.8), hz("LT2", 3, 4, 0, 0.3)},
	"clay20":   {hz("TL", 4, 3, 0, 2.5), hz("TT", 20, 5, 0, 0.5)},
	"peat12":   {hz("HN", 4, 1, 0, 25), hz("HN", 8, 1, 0, 20), hz("SS", 12, 3, 0, 0.3)},
	"peat5":    {hz("HN", 5, 1, 0, 25)},
	"peat9":    {hz("HN", 4, 1, 0, 25), hz("SS", 9, 3, 0, 0.3)},
	"gravel12": {{Tex: "SL2", Lower: 4, BD: 3, Corg: 1, CN: 10, FC: 25, WP: 8, PS: 40}, {Tex: "SS", Lower: 12, BD: 3, Corg: 0.1, CN: 10, FC: 10, WP: 5, PS: 30}},
	"siltcap12": {hz("UU", 3, 4, 0, 5.5), hz("ULS", 12, 3, 0, 0.5)}, // dense silt rich in carbon: the table's field capacity is capped at the pore volume
	// horizons whose capacity values come from different sources: table above explicit values, and the other way round
	"mixedte12": {hz("SL3", 4, 3, 0, 1.0), {Tex: "SL4", Lower: 12, BD: 3, Corg: 0.3, CN: 10, FC: 25, WP: 14, PS: 40}},
	"mixedet12": {{Tex: "SL3", Lower: 4, BD: 3, Corg: 1, CN: 10, FC: 28, WP: 12, PS: 42}, hz("LT3", 12, 4, 0, 0.4)},
	"sand8":    {hz("SL2", 3, 3, 0, 1.0), hz("SS", 8, 3, 10, 0.2)},
	"loam7":    {hz("LS3", 3, 2, 0, 1.4), hz("LT3", 7, 4, 0, 0.4)},
	"peat2":    {hz("HN", 2, 1, 0, 30)},
	"expl12":   {{Tex: "SL3", Lower: 3, BD: 3, Corg: 1, CN: 10, FC: 28, WP: 12, PS: 42}, {Tex: "SL4", Lower: 12, BD: 3, Corg: 0.3, CN: 10, FC: 25, WP: 14, PS: 40}},
	"silt20":   {hz("UU", 3, 2, 0, 1.4), hz("ULS", 9, 3, 0, 0.5), hz("SU3", 20, 3, 0, 0.1)},
}

func soilN(name string) int {
	h := soilCat[name]
	return h[len(h)-1].Lower
}

// ---- base project -----------------------------------------------------------------------------

const e1Start = "2001-04-10"

type e1Base struct {
	Soil      string  `json:"soil"`
	GW        int     `json:"gw"`
	DrainDep  int     `json:"drain_dep"`
	DrainFrac float64 `json:"drain_frac"`
	InitW     float64 `json:"init_w"` // fraction of available water on the measurement day
	InitN     float64 `json:"init_n"` // kg N/ha per 30 cm band
	Crop      string  `json:"crop"`   // "" = bare
	WarmUp    int     `json:"warmup"` // warm-up days after the measurement day
	ET        int     `json:"et"`
	Leach     int     `json:"leach"` // leaching depth, 0 = profile bottom
	Start     string  `json:"start,omitempty"`
	Hor       []proj.Horizon `json:"hor,omitempty"` // explicit profile instead of a catalogue soil
	InitVol   []float64      `json:"init_vol,omitempty"` // initial water as volumetric fraction per 30 cm band (measurement mode 3) instead of InitW
	PreCrop   string         `json:"pre_crop,omitempty"` // a crop grown (from day 2) and harvested PreDays later, before Crop is sown two days after that harvest
	PreDays   int            `json:"pre_days,omitempty"`
}

func (b e1Base) horizons() []proj.Horizon {
	if len(b.Hor) > 0 {
		return b.Hor
	}
	return soilCat[b.Soil]
}

// e1Project builds the project for an initial state; word days follow the warm-up.
// Day 0 = start, day 1 = measurement (overwrite, exempt), days 2..1+warmup = warm-up, then the word.
func e1Project(b e1Base, ndays int) *proj.Project {
	start := b.Start
	if start == "" {
		start = e1Start
	}
	s := proj.D(start)
	iso := func(off int) string { return s.AddDate(0, 0, off).Format("2006-01-02") }
	hor := b.horizons()
	n := hor[len(hor)-1].Lower
	leach := b.Leach
	if leach == 0 {
		leach = n
	}
	p := &proj.Project{ID: "e1", Plot: "1", Field: "F1", SoilID: "001",
		Soil:     proj.Soil{Hor: hor, RootDepth: min(n, 12), GW: b.GW, DrainDepth: b.DrainDep, DrainFrac: b.DrainFrac},
		Rotation: []proj.CropEntry{{Crop: "WW", Harvest: iso(0), Rex: 80, Yld: 50}},
		Meas:     &proj.Meas{Date: iso(1), Mode: 1},
		Config: map[string]string{"ETpot": fmt.Sprint(b.ET), "LeachingDepth": fmt.Sprint(leach), "AnnualOutputDate": "0101",
			"EndDate": proj.DateStr("DateDElong", s.AddDate(0, 0, ndays-1))},
		WeatherStart: iso(-3),
	}
	for i := range p.Meas.Water {
		p.Meas.Water[i] = b.InitW
		p.Meas.Nmin[i] = b.InitN
		if len(b.InitVol) > 0 {
			p.Meas.Mode = 3
			p.Meas.Water[i] = b.InitVol[min(i, len(b.InitVol)-1)]
		}
	}
	if b.Crop != "" && b.PreCrop != "" {
		p.Rotation = append(p.Rotation, proj.CropEntry{Crop: b.PreCrop, Sow: iso(2), Harvest: iso(2 + b.PreDays), Rex: 50},
			proj.CropEntry{Crop: b.Crop, Sow: iso(4 + b.PreDays), Harvest: iso(ndays + 200), Rex: 0})
	} else if b.Crop != "" {
		p.Rotation = append(p.Rotation, proj.CropEntry{Crop: b.Crop, Sow: iso(2), Harvest: iso(ndays + 200), Rex: 0})
	} else {
		// a second entry far in the future keeps the field bare
		p.Rotation = append(p.Rotation, proj.CropEntry{Crop: "SM", Sow: iso(ndays + 300), Harvest: iso(ndays + 400)})
	}
	if b.ET == 1 {
		p.VerdColumn = true
	}
	return p
}

// e1Weather: 3 lead days + day0 + measurement day + warm-up + word + 4 tail days.
func e1Weather(warm int, word []string, verd bool) []proj.Day {
	var w []proj.Day
	add := func(sym string) {
		d := sigma[sym]
		if verd {
			d.Verd = satDeficit(d)
		}
		w = append(w, d)
	}
	for i := 0; i < 3+2; i++ {
		add("mild")
	}
	for i := 0; i < warm; i++ {
		add("grow")
	}
	for _, s := range word {
		add(s)
	}
	for i := 0; i < 4; i++ {
		add("mild")
	}
	return w
}

// satDeficit: a plausible 14:00 saturation deficit (mm Hg) for Haude from Tmax and RH.
func satDeficit(d proj.Day) float64 {
	es := 4.58 * math.Pow(10, 7.45*d.Tmax/(235+d.Tmax))
	return math.Round(es*(1-d.RH/100)*8) / 8
}

// words enumerates Σ^d in lexicographic order (alphabet order = mildest first).
func words(alpha []string, d int) [][]string {
	if d == 0 {
		return [][]string{{}}
	}
	var out [][]string
	for _, w := range words(alpha, d-1) {
		for _, a := range alpha {
			nw := append(append([]string{}, w...), a)
			out = append(out, nw)
		}
	}
	return out
}

func relTol(terms ...float64) float64 {
	s := 1.0
	for _, t := range terms {
		s += math.Abs(t)
	}
	return 1e-9 * s
}

func finite(v float64) bool { return !math.IsNaN(v) && !math.IsInf(v, 0) }

func scratchRoot() string { return proj.TempRoot(mc.Scratch()) }

func writeWeather(root string, p *proj.Project) { p.WriteWeather(root) }

var _ = os.Remove
var _ = filepath.Join

func isoAdd(iso string, d int) string { return proj.D(iso).AddDate(0, 0, d).Format("2006-01-02") }

var _ = time.Now
