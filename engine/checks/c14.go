package checks

import (
	"encoding/json"
	"fmt"
	"os"
	"path/filepath"
	"reflect"
	"sort"
	"strconv"
	"strings"
	"time"

	"github.com/zalf-rpm/Hermes2Go/hermes"
	"verif/mc"
	"verif/proj"
)

// C14 — configuration precedence: batch line over project configuration file over defaults; unknown keys ignored;
// independent of the argument order. The effective configuration is read through the Config probe right after the
// real readConfig, together with the run variables that readConfig derives from it.

// c14Val: a value in the two spellings (configuration file / batch line) and its canonical %v form.
type c14Val struct{ File, Line, Canon string }

// two alternative values per key; both usable in a file and on the line
var c14Values = map[string][2]c14Val{
	"Dateformat":                      {{"DateENlong", "3", "DateENlong"}, {"DateDElong", "1", "DateDElong"}},
	"DivideCentury":                   {{"30", "30", "30"}, {"60", "60", "60"}},
	"GroundWaterFrom":                 {{"polygonfile", "0", "polygonfile"}, {"gwTimeSeries", "2", "gwTimeSeries"}},
	"ResultFileFormat":                {{"1", "1", "1"}, {"2", "2", "2"}},
	"ResultFileExt":                   {{"'out'", "out", "out"}, {"'dat'", "dat", "dat"}},
	"OutputIntervall":                 {{"1", "1", "1"}, {"7", "7", "7"}},
	"ManagementEvents":                {{"1", "1", "1"}, {"2", "2", "2"}},
	"InitSelection":                   {{"1", "1", "1"}, {"2", "2", "2"}},
	"SoilFile":                        {{"soilA", "soilA", "soilA"}, {"soilB", "soilB", "soilB"}},
	"SoilFileExtension":               {{"csv", "csv", "csv"}, {"tab", "tab", "tab"}},
	"CropFileFormat":                  {{"csv", "csv", "csv"}, {"tsv", "tsv", "tsv"}},
	"CropParameterFormat":             {{"yml", "yml", "yml"}, {"yaml", "yaml", "yaml"}},
	"MeasurementFileFormat":           {{"csv", "csv", "csv"}, {"dat", "dat", "dat"}},
	"PolygonGridFileName":             {{"polyA", "polyA", "polyA"}, {"polyB", "polyB", "polyB"}},
	"WeatherFile":                     {{"'%s.txt'", "%s.txt", "%s.txt"}, {"'%s.dat'", "%s.dat", "%s.dat"}},
	"WeatherFileFormat":               {{"0", "0", "0"}, {"2", "2", "2"}},
	"WeatherFolder":                   {{"wa", "wa", "wa"}, {"wb", "wb", "wb"}},
	"WeatherRootFolder":               {{"./wra", "./wra", "ROOT/wra"}, {"/abs/wrb", "/abs/wrb", "/abs/wrb"}},
	"WeatherNoneValue":                {{"-999", "-999", "-999"}, {"-9999.5", "-9999.5", "-9999.5"}},
	"WeatherNumHeader":                {{"1", "1", "1"}, {"3", "3", "3"}},
	"CorrectionPrecipitation":         {{"1", "on", "true"}, {"0", "off", "false"}},
	"AnnualAverageTemperature":        {{"9.5", "9.5", "9.5"}, {"7.25", "7.25", "7.25"}},
	"ETpot":                           {{"1", "1", "1"}, {"2", "2", "2"}},
	"CO2method":                       {{"1", "1", "1"}, {"3", "3", "3"}},
	"CO2concentration":                {{"400", "400", "400"}, {"550.5", "550.5", "550.5"}},
	"CO2StomataInfluence":             {{"0", "no", "false"}, {"1", "yes", "true"}},
	"NDeposition":                     {{"10", "10", "10"}, {"35.5", "35.5", "35.5"}},
	"StartYear":                       {{"1995", "1995", "1995"}, {"2001", "2001", "2001"}},
	"EndDate":                         {{"'05062003'", "05062003", "05062003"}, {"'07082004'", "07082004", "07082004"}},
	"AnnualOutputDate":                {{"'0101'", "0101", "0101"}, {"'1506'", "1506", "1506"}},
	"VirtualDateFertilizerPrediction": {{"'01042002'", "01042002", "01042002"}, {"'02052003'", "02052003", "02052003"}},
	"Latitude":                        {{"48.25", "48.25", "48.25"}, {"-33", "-33", "-33"}},
	"Altitude":                        {{"120", "120", "120"}, {"480", "480", "480"}},
	"CoastDistance":                   {{"20", "20", "20"}, {"45.5", "45.5", "45.5"}},
	"PTF":                             {{"1", "1", "1"}, {"2", "2", "2"}},
	"LeachingDepth":                   {{"9", "9", "9"}, {"12", "12", "12"}},
	"OrganicMatterMineralProportion":  {{"0.2", "0.2", "0.2"}, {"0.11", "0.11", "0.11"}},
	"KcFactorBareSoil":                {{"0.5", "0.5", "0.5"}, {"0.3", "0.3", "0.3"}},
	"PotMineralisation":               {{"1", "1", "1"}, {"2", "2", "2"}},
	"GroundWaterPhase":                {{"100", "100", "100"}, {"200", "200", "200"}},
	"Fertilization":                   {{"80", "80", "80"}, {"120", "120", "120"}},
	"AutoSowingHarvest":               {{"0", "false", "false"}, {"1", "true", "true"}},
	"AutoFertilization":               {{"0", "0", "false"}, {"1", "1", "true"}},
	"AutoIrrigation":                  {{"0", "off", "false"}, {"1", "on", "true"}},
	"AutoHarvest":                     {{"0", "no", "false"}, {"1", "yes", "true"}},
}

// c14ValOf: value 0/1 of the table; value 2 = the empty text (text keys only: "Key=" on the line, '' in the file)
func c14ValOf(k string, idx int) c14Val {
	if idx >= 10 {
		return c14DomainVals(k)[idx-10]
	}
	if idx == 2 {
		return c14Val{"''", "", ""}
	}
	return c14Values[k][idx]
}

// c14DomainVals: further values of a numeric key (index 10+i): every documented method number of the method keys, and the
// ends and the middle of the meaningful range of the other numeric keys. Values outside a key's meaningful range are not
// enumerated: replacing an invalid value by a default would not contradict the statement.
var c14Domain = map[string][]float64{
	"ETpot": {1, 2, 3, 4, 5}, "CO2method": {1, 2, 3}, "PTF": {0, 1, 2, 3, 4}, "WeatherFileFormat": {0, 1, 2}, "ResultFileFormat": {0, 1},
	"InitSelection": {1, 2, 3, 4}, "PotMineralisation": {0, 1, 2}, "ManagementEvents": {0, 1, 2}, "DivideCentury": {0, 1, 50, 99},
	"OutputIntervall": {0, 1, 2, 5, 30, 365}, "LeachingDepth": {1, 2, 5, 10, 15, 19, 20}, "GroundWaterPhase": {0, 1, 80, 180, 365},
	"StartYear": {1901, 1950, 2000, 2099}, "WeatherNumHeader": {1, 2, 3, 4},
	"WeatherNoneValue": {-99.9, -9999, 9999}, "AnnualAverageTemperature": {-5.5, 0, 25}, "CO2concentration": {280, 1000.5}, "NDeposition": {0, 100.5},
	"Latitude": {-89.5, 0, 89.5}, "Altitude": {-10, 0, 4000.5}, "CoastDistance": {0, 1000}, "OrganicMatterMineralProportion": {0, 0.5, 1},
	"KcFactorBareSoil": {0, 1.5}, "Fertilization": {0, 0.5, 300},
}

func c14DomainVals(k string) []c14Val {
	var out []c14Val
	for _, v := range c14Domain[k] {
		s := fmt.Sprint(v)
		out = append(out, c14Val{s, s, s})
	}
	return out
}

// c14TextKeys: keys of text kind (an empty value is a value)
func c14TextKeys() []string {
	t := reflect.TypeOf(hermes.Config{})
	var ks []string
	for i := 0; i < t.NumField(); i++ {
		if t.Field(i).Type.Kind() == reflect.String && t.Field(i).Name != "EndDate" {
			ks = append(ks, t.Field(i).Name)
		}
	}
	return ks
}

func c14Keys() []string {
	t := reflect.TypeOf(hermes.Config{})
	var ks []string
	for i := 0; i < t.NumField(); i++ {
		ks = append(ks, t.Field(i).Name)
	}
	return ks
}

// one case: which keys are in the file / on the line (value index 0/1), extra unknown keys, argument order
type c14Case struct {
	File  map[string]int `json:"file,omitempty"`
	Line  map[string]int `json:"line,omitempty"`
	Order []string       `json:"order,omitempty"` // explicit argument order (keys, incl. unknown ones); nil = sorted
	NoFile bool          `json:"no_file,omitempty"`
}

type c14Spec struct {
	Kind  string    `json:"kind"` // single | pairs | perm | all | e2e
	Key   string    `json:"key,omitempty"`
	Cases []c14Case `json:"cases,omitempty"`
	E2E   string    `json:"e2e,omitempty"`
}

// arguments that name no key; an entry starting with "!" stands for a token that is no key=value pair at all (a stray
// word or comment sign on the line): the reader skips it like an unknown key
var c14Unknown = []string{"NoSuchKey=5", "etpot=1", "!scenarioA", "Config=3", "ETpot2=1", "!#", "dateformat=DateENshort"}

func c14Specs(tier string, seed int) []c14Spec {
	keys := c14Keys()
	var out []c14Spec
	// (1) each key alone: absent | file | line | file+line (both value assignments), with and without unknown keys, without a file at all
	for _, k := range keys {
		sp := c14Spec{Kind: "single", Key: k}
		for v := 0; v < 2; v++ {
			sp.Cases = append(sp.Cases,
				c14Case{File: map[string]int{k: v}},
				c14Case{Line: map[string]int{k: v}},
				c14Case{File: map[string]int{k: v}, Line: map[string]int{k: 1 - v}},
				c14Case{File: map[string]int{k: v}, Line: map[string]int{k: v}},
				c14Case{Line: map[string]int{k: v}, NoFile: true},
				c14Case{Line: map[string]int{k: v}, Order: []string{c14Unknown[0], k, c14Unknown[1]}},
				c14Case{File: map[string]int{k: v}, Order: []string{c14Unknown[2], c14Unknown[3], c14Unknown[4]}},
				c14Case{Line: map[string]int{k: v}, Order: []string{"!scenarioA", k}},
				c14Case{File: map[string]int{k: v}, Line: map[string]int{k: 1 - v}, Order: []string{"NoSuchKey=5", "!#", k, "!note"}},
				// together with the other kinds of arguments a batch line may carry (crop file and crop parameter overrides, output id)
				c14Case{Line: map[string]int{k: v}, Order: []string{"CropFile=PARAM.WW", k, "c_MAXAMAX=44"}},
				c14Case{File: map[string]int{k: v}, Line: map[string]int{k: 1 - v}, Order: []string{"c_TSUM_1=150", "poligonID=Q7", k, "CropFile=PARAM.SM"}},
			)
		}
		out = append(out, sp)
	}
	out = append(out, c14Spec{Kind: "single", Key: "(none)", Cases: []c14Case{{}, {NoFile: true}, {Order: c14Unknown}}})
	// text keys: the empty text is a value too (on the line it overrides the file, in the file it overrides the default)
	for _, k := range c14TextKeys() {
		sp := c14Spec{Kind: "single", Key: k + " (empty text)"}
		sp.Cases = append(sp.Cases,
			c14Case{Line: map[string]int{k: 2}},
			c14Case{File: map[string]int{k: 0}, Line: map[string]int{k: 2}},
			c14Case{File: map[string]int{k: 2}},
			c14Case{File: map[string]int{k: 2}, Line: map[string]int{k: 1}},
			c14Case{Line: map[string]int{k: 2}, NoFile: true})
		out = append(out, sp)
	}
	// numeric keys: the further values of the domain from each source, and over/under a standard value of the other source
	for _, k := range keys {
		n := len(c14DomainVals(k))
		if n == 0 {
			continue
		}
		sp := c14Spec{Kind: "single", Key: k + " (domain)"}
		for i := 0; i < n; i++ {
			sp.Cases = append(sp.Cases,
				c14Case{Line: map[string]int{k: 10 + i}},
				c14Case{File: map[string]int{k: 10 + i}},
				c14Case{File: map[string]int{k: i % 2}, Line: map[string]int{k: 10 + i}},
				c14Case{File: map[string]int{k: 10 + i}, Line: map[string]int{k: 1 - i%2}},
				c14Case{File: map[string]int{k: 10 + (i+1)%n}, Line: map[string]int{k: 10 + i}},
				c14Case{Line: map[string]int{k: 10 + i}, NoFile: true})
		}
		out = append(out, sp)
	}
	// (2) all unordered pairs of keys x 9 source combinations (absent/file/line each)
	for i := 0; i < len(keys); i++ {
		sp := c14Spec{Kind: "pairs", Key: keys[i]}
		for j := i + 1; j < len(keys); j++ {
			for si := 0; si < 3; si++ {
				for sj := 0; sj < 3; sj++ {
					cs := c14Case{File: map[string]int{}, Line: map[string]int{}}
					put := func(k string, s, v int) {
						switch s {
						case 1:
							cs.File[k] = v
						case 2:
							cs.Line[k] = v
						}
					}
					put(keys[i], si, (i+j)%2)
					put(keys[j], sj, (i+j+1)%2)
					sp.Cases = append(sp.Cases, cs)
					// both in file and on line for the first key, differing values
					if si == 2 && sj != 0 {
						c2 := c14Case{File: map[string]int{keys[i]: 1 - (i+j)%2}, Line: map[string]int{keys[i]: (i + j) % 2}}
						put2 := func(k string, s, v int) {
							if s == 1 {
								c2.File[k] = v
							} else {
								c2.Line[k] = v
							}
						}
						put2(keys[j], sj, (i+j+1)%2)
						sp.Cases = append(sp.Cases, c2)
					}
				}
			}
		}
		if len(sp.Cases) > 0 {
			out = append(out, sp)
		}
	}
	// (3) all permutations of 4 arguments (3 keys + 1 unknown) for sliding windows of keys
	step := 3
	if tier == "thorough" {
		step = 1
	}
	for i := 0; i+2 < len(keys); i += step {
		sp := c14Spec{Kind: "perm", Key: keys[i]}
		items := []string{keys[i], keys[i+1], keys[i+2], c14Unknown[(i)%len(c14Unknown)]}
		permute(items, func(p []string) {
			cs := c14Case{File: map[string]int{keys[i]: 0, keys[i+1]: 1}, Line: map[string]int{keys[i]: 1, keys[i+1]: 0, keys[i+2]: i % 2}, Order: append([]string{}, p...)}
			sp.Cases = append(sp.Cases, cs)
		})
		out = append(out, sp)
	}
	// (4) the full set at once: all in file / all on line / all in both (opposite values) / alternating
	all := c14Spec{Kind: "all", Key: "(all)"}
	for v := 0; v < 2; v++ {
		f, l, alt1, alt2 := map[string]int{}, map[string]int{}, map[string]int{}, map[string]int{}
		for i, k := range keys {
			f[k], l[k] = v, 1-v
			if i%2 == 0 {
				alt1[k] = v
			} else {
				alt2[k] = 1 - v
			}
		}
		all.Cases = append(all.Cases, c14Case{File: f}, c14Case{Line: l}, c14Case{File: f, Line: l}, c14Case{File: alt1, Line: alt2}, c14Case{Line: l, NoFile: true})
	}
	out = append(out, all)
	// (4b) several runs in ONE session on the same project: what an earlier line carried must not reach a later line
	for i := 0; i < len(keys); i += 5 {
		out = append(out, c14Spec{Kind: "session", Key: keys[i], Cases: nil, E2E: strings.Join(keys[i:min(i+5, len(keys))], ",")})
	}
	// (5) end to end through complete runs and their result files
	for _, k := range []string{"EndDate", "OutputIntervall", "ResultFileExt", "AnnualOutputDate", "ResultFileFormat", "NDeposition", "Fertilization", "CorrectionPrecipitation", "KcFactorBareSoil", "ETpot", "LeachingDepth", "CO2concentration", "AnnualAverageTemperature"} {
		out = append(out, c14Spec{Kind: "e2e", E2E: k})
	}
	return out
}

func permute(a []string, f func([]string)) {
	var rec func(int)
	rec = func(i int) {
		if i == len(a) {
			f(a)
			return
		}
		for j := i; j < len(a); j++ {
			a[i], a[j] = a[j], a[i]
			rec(i + 1)
			a[i], a[j] = a[j], a[i]
		}
	}
	rec(0)
}

func init() {
	mc.Register(&mc.Check{
		ID:        "C14",
		Technique: "exhaustive enumeration of configuration-source combinations on the real configuration reader: every key x {absent, file, line, both}, every pair of keys x 9 source combinations, all argument permutations of 4-argument lines, the full key set at once; effective configuration and derived run variables read through a probe; end-to-end confirmation through result files of complete runs",
		Rule: "case = (set of keys in config.yml with values, set of key=value arguments with values, unknown keys, argument order); every case is executed 12 times (Go randomises the iteration order of the argument map per execution) and each execution is compared with the precedence function line > file > NewDefaultConfig followed by the three documented normalisations; " +
			"non-trivial = a case in which at least one key is present in two sources or two keys come from different sources",
		Assumptions: []string{"enumerated keys: all fields of hermes.Config by reflection (45)", "enum keys (Dateformat, GroundWaterFrom) are written by name in the file and by number on the line (the only spelling the line accepts); on/off keys use 1/0 in the file and all spellings on the line",
			"values: two per key, valid for the reader (long date formats, dates valid in both long formats)", "duplicate keys on one line and values containing '=' are outside the statement"},
		Bound: func(t string) string {
			return "45 keys x 14 single-key cases; all 990 key pairs x 9-11 source combinations; 24 permutations x " + map[string]string{"quick": "15", "thorough": "43"}[t] + " key windows; 10 full-set cases; 7 end-to-end keys x 4 source combinations"
		},
		Budget: func(t string) time.Duration {
			if t == "quick" {
				return 150 * time.Second
			}
			return 20 * time.Minute
		},
		Scenarios: func(tier string, seed int) []json.RawMessage { return mc.Specs(c14Specs(tier, seed)) },
		Run:       c14Run,
	})
}

type c14Abort struct{}

// c14Expected: the boring reference (precedence + normalisations) as canonical strings per key.
func c14Expected(cs c14Case, root string) map[string]string {
	def := reflect.ValueOf(hermes.NewDefaultConfig())
	exp := map[string]string{}
	for _, k := range c14Keys() {
		exp[k] = fmt.Sprintf("%v", def.FieldByName(k).Interface())
		if v, ok := cs.File[k]; ok && !cs.NoFile {
			exp[k] = c14ValOf(k, v).Canon
		}
		if v, ok := cs.Line[k]; ok {
			exp[k] = c14ValOf(k, v).Canon
		}
	}
	if exp["WeatherFolder"] == "" {
		exp["WeatherFolder"] = "Weather"
	}
	switch w := exp["WeatherRootFolder"]; {
	case w == "":
		exp["WeatherRootFolder"] = root
	case strings.HasPrefix(w, "ROOT"):
		exp["WeatherRootFolder"] = root + strings.TrimPrefix(w, "ROOT")
	}
	if exp["ResultFileExt"] == "" {
		if exp["ResultFileFormat"] == "1" {
			exp["ResultFileExt"] = "csv"
		} else {
			exp["ResultFileExt"] = "RES"
		}
	}
	return exp
}

func c14WriteConfig(root, id string, cs c14Case) {
	pd := filepath.Join(root, "project", id)
	os.MkdirAll(pd, 0o755)
	cf := filepath.Join(pd, "config.yml")
	if cs.NoFile {
		os.Remove(cf)
		return
	}
	var ks []string
	for k := range cs.File {
		ks = append(ks, k)
	}
	sort.Strings(ks)
	var b strings.Builder
	b.WriteString("# generated\n")
	for _, k := range ks {
		fmt.Fprintf(&b, "%s: %s\n", k, c14ValOf(k, cs.File[k]).File)
	}
	os.WriteFile(cf, []byte(b.String()), 0o644)
}

func c14Args(cs c14Case) []string {
	arg := func(k string) string { return k + "=" + c14ValOf(k, cs.Line[k]).Line }
	var a []string
	if cs.Order != nil {
		used := map[string]bool{}
		for _, o := range cs.Order {
			if strings.HasPrefix(o, "!") {
				a = append(a, o[1:]) // a token that is no key=value pair
			} else if strings.Contains(o, "=") {
				a = append(a, o) // unknown key, literal
			} else if _, ok := cs.Line[o]; ok {
				a = append(a, arg(o))
				used[o] = true
			}
		}
		for k := range cs.Line {
			if !used[k] {
				a = append(a, arg(k))
			}
		}
		sort.Strings(a[len(a)-(len(cs.Line)-len(used)):])
		return a
	}
	for k := range cs.Line {
		a = append(a, arg(k))
	}
	sort.Strings(a)
	return a
}

func c14Run(raw json.RawMessage, c *mc.Ctx) {
	sp := mc.Decode[c14Spec](raw)
	root := scratchRoot()
	defer os.RemoveAll(root)
	if sp.Kind == "e2e" {
		c14E2E(sp, c, root)
		return
	}
	if sp.Kind == "session" {
		c14Session(sp, c, root)
		return
	}
	const reps = 12
	for ci, cs := range sp.Cases {
		if e := c14Expected(cs, root); e["Dateformat"] == "DateENlong" && e["EndDate"] == "31122010" {
			// the default end date is not a valid date in the month-first format: such a configuration must name an end date
			if cs.NoFile {
				cs.Line["EndDate"] = 0
			} else {
				if cs.File == nil {
					cs.File = map[string]int{}
				}
				cs.File["EndDate"] = 0
			}
		}
		c14WriteConfig(root, "cfg", cs)
		exp := c14Expected(cs, root)
		args := append([]string{"project=cfg", "plotNr=1"}, c14Args(cs)...)
		h := mc.NewHasher().S(sp.Kind).S(sp.Key).I(ci).Sum()
		c.State(h)
		two := 0
		for k := range cs.Line {
			if _, ok := cs.File[k]; ok {
				two++
			}
		}
		if two > 0 || (len(cs.Line) > 0 && len(cs.File) > 0) {
			c.NonTrivial(h)
		}
		desc := func() string {
			fb, _ := json.Marshal(cs.File)
			return fmt.Sprintf("config.yml keys %s (file present: %v), batch line %v", fb, !cs.NoFile, args[2:])
		}
		for rep := 0; rep < reps; rep++ {
			var got map[string]string
			var gvars map[string]string
			pr := &hermes.VerifProbe{Config: func(g *hermes.GlobalVarsMain, cfg *hermes.Config, hp *hermes.HFilePath) {
				got = map[string]string{}
				v := reflect.ValueOf(*cfg)
				for _, k := range c14Keys() {
					got[k] = fmt.Sprintf("%v", v.FieldByName(k).Interface())
				}
				gvars = map[string]string{
					"StartYear": fmt.Sprint(g.ANJAHR), "InitSelection": fmt.Sprint(g.INIWAHL), "CorrectionPrecipitation": fmt.Sprint(g.PRECO), "CO2method": fmt.Sprint(g.CO2METH),
					"CO2concentration": fmt.Sprint(g.CO2KONZ), "CO2StomataInfluence": fmt.Sprint(g.CTRANS), "ETpot": fmt.Sprint(g.ETMETH), "Latitude": fmt.Sprint(g.LAT), "Altitude": fmt.Sprint(g.ALTI),
					"LeachingDepth": fmt.Sprint(g.OUTN), "OrganicMatterMineralProportion": fmt.Sprint(g.NAKT), "NDeposition": fmt.Sprint(g.DEPOS), "Fertilization": fmt.Sprint(g.DUNGSZEN * 100),
					"KcFactorBareSoil": fmt.Sprint(g.FKB), "AnnualAverageTemperature": fmt.Sprint(g.TBASE), "AutoSowingHarvest": fmt.Sprint(g.AUTOMAN), "AutoFertilization": fmt.Sprint(g.AUTOFERT),
					"AutoIrrigation": fmt.Sprint(g.AUTOIRRI), "AutoHarvest": fmt.Sprint(g.AUTOHAR), "PTF": fmt.Sprint(g.PTF), "GroundWaterPhase": fmt.Sprint(g.GWPhase),
					"PotMineralisation": fmt.Sprint(g.PotMineralisationMethod), "GroundWaterFrom": fmt.Sprint(g.GROUNDWATERFROM), "Dateformat": fmt.Sprint(g.DATEFORMAT),
				}
				panic(c14Abort{})
			}}
			proj.Run(root, args, pr)
			c.Trace(1)
			c.Transition(1)
			if got == nil {
				c.Violate("configuration-not-read "+sp.Kind, fmt.Sprintf("%s: the run did not reach the end of the configuration reader", desc()), nil)
				break
			}
			bad := false
			for _, k := range c14Keys() {
				c.Eval(1)
				src := "default"
				if _, ok := cs.File[k]; ok && !cs.NoFile {
					src = "file"
				}
				if _, ok := cs.Line[k]; ok {
					if src == "file" {
						src = "line-over-file"
					} else {
						src = "line"
					}
				}
				if got[k] != exp[k] {
					c.Violate(fmt.Sprintf("wrong-effective-value key=%s expected-from=%s", k, src), fmt.Sprintf("%s: effective %s = %q, expected %q (from %s)", desc(), k, got[k], exp[k], src), nil)
					bad = true
				} else if gv, ok := gvars[k]; ok {
					want := exp[k]
					if k == "Fertilization" {
						f, _ := strconv.ParseFloat(want, 64)
						want = fmt.Sprint(f / 100 * 100)
					}
					if gv != want {
						c.Violate(fmt.Sprintf("run-variable-differs-from-configuration key=%s expected-from=%s", k, src), fmt.Sprintf("%s: configuration has %s = %q but the run variable derived from it is %q", desc(), k, exp[k], gv), nil)
						bad = true
					}
				}
			}
			if bad {
				c.Outcome("mismatch")
				break
			}
		}
		c.Outcome("case-ok " + sp.Kind)
	}
	c.Sample(map[string]interface{}{"kind": sp.Kind, "key": sp.Key, "cases": len(sp.Cases)})
}

// c14E2E: complete runs; the key's effect is read from the result files.
func c14E2E(sp c14Spec, c *mc.Ctx, root string) {
	k := sp.E2E
	type val struct{ file, line string }
	vals := map[string][2]val{
		"EndDate":          {{"'20042001'", "20042001"}, {"'25042001'", "25042001"}},
		"OutputIntervall":  {{"1", "1"}, {"3", "3"}},
		"ResultFileExt":    {{"'out'", "out"}, {"'dat'", "dat"}},
		"AnnualOutputDate": {{"'1504'", "1504"}, {"'1804'", "1804"}},
		"ResultFileFormat": {{"0", "0"}, {"1", "1"}},
		"NDeposition":      {{"0", "0"}, {"365", "365"}},
		"Fertilization":    {{"50", "50"}, {"200", "200"}},
		"CorrectionPrecipitation": {{"0", "0"}, {"1", "1"}},
		"KcFactorBareSoil":        {{"0.4", "0.4"}, {"0.9", "0.9"}},
		"ETpot":                   {{"2", "2"}, {"3", "3"}},
		"LeachingDepth":           {{"5", "5"}, {"12", "12"}},
		"CO2concentration":        {{"360", "360"}, {"700", "700"}},
		"WeatherNoneValue":        {{"-99.9", "-99.9"}, {"0", "0"}},
		"AnnualAverageTemperature": {{"4", "4"}, {"14", "14"}},
	}[k]
	// observable per key from the result files
	observe := func(r *proj.RunResult) string {
		daily := ""
		name := ""
		for n, v := range r.Files {
			if strings.HasPrefix(n, "V") {
				daily, name = v, n
			}
		}
		lines := strings.Split(strings.TrimSpace(daily), "\n")
		switch k {
		case "EndDate":
			return strings.TrimSpace(strings.Split(lines[len(lines)-1], ",")[0])
		case "OutputIntervall":
			return fmt.Sprint(len(lines))
		case "ResultFileExt":
			return filepath.Ext(name)
		case "AnnualOutputDate":
			y := strings.Split(strings.TrimSpace(r.File("Y")), "\n")
			return strings.TrimSpace(strings.Split(y[len(y)-1], ",")[0])
		case "ResultFileFormat":
			return fmt.Sprint(strings.Contains(lines[len(lines)-1], ","))
		case "NDeposition", "Fertilization":
			return lines[len(lines)-1]
		}
		return strings.Join(lines[len(lines)-3:], " | ")
	}
	run := func(file, line string) (string, bool) {
		b := e1Base{Soil: "loam12", GW: 99, InitW: 0.6, InitN: 20, ET: 3}
		p := e1Project(b, 20)
		p.Config["OutputIntervall"] = "1"
		p.Fert = []proj.Fert{{Date: isoAdd(e1Start, 3), Amount: 100, Kind: "KAS"}}
		p.DailyCols = minimalDailyWith("C1:1", "DSUMM")
		if k == "ResultFileFormat" {
			p.Config["ResultFileExt"] = "res"
		}
		switch k {
		case "CorrectionPrecipitation", "KcFactorBareSoil", "ETpot", "LeachingDepth", "CO2concentration", "WeatherNoneValue", "AnnualAverageTemperature":
			p.DailyCols = minimalDailyWith("C1:1", "REGENSUM", "VERDUNST", "OUTSUM", "OBMAS", "TSOIL:0:3", "RADdaily")
			p.Config["CO2method"] = "1"
			p.SunColumn = true
		}
		if k == "CO2concentration" {
			p.Rotation = append(p.Rotation[:1], proj.CropEntry{Crop: "SW", Sow: isoAdd(e1Start, 1), Harvest: isoAdd(e1Start, 200), Rex: 0})
		}
		delete(p.Config, k)
		if file != "" {
			p.Config[k] = strings.Trim(file, "'")
		} else {
			p.Config[k] = "\x00absent"
		}
		word := make([]string, 18)
		for i := range word {
			word[i] = "mild"
		}
		if k == "CO2concentration" {
			for i := range word {
				word[i] = "grow"
			}
		}
		p.Weather = e1Weather(0, word, false)
		if k == "WeatherNoneValue" {
			// a day with radiation 0: a number under one setting, a missing value (radiation derived from the sunshine hours) under the other
			p.Weather[21].Rad = 0
		}
		p.Write(root)
		if k == "CorrectionPrecipitation" {
			os.WriteFile(filepath.Join(root, "weather", "w", "preco.txt"), []byte("Mo Corr\n 1 1.25\n 2 1.50\n 3 1.12\n 4 1.50\n 5 1.25\n 6 1.00\n 7 0.75\n 8 1.75\n 9 1.37\n10 1.62\n11 1.87\n12 2.00\n"), 0o644)
		}
		if file == "" {
			// remove the key from the written file
			cf := filepath.Join(root, "project", p.ID, "config.yml")
			bts, _ := os.ReadFile(cf)
			var keep []string
			for _, l := range strings.Split(string(bts), "\n") {
				if !strings.HasPrefix(l, k+":") {
					keep = append(keep, l)
				}
			}
			os.WriteFile(cf, []byte(strings.Join(keep, "\n")), 0o644)
		}
		var extra []string
		if line != "" {
			extra = []string{k + "=" + line}
		}
		r := proj.Run(root, p.Args(root, extra...), nil)
		c.Trace(1)
		if !r.Success {
			return "run failed: " + r.Err + r.Panic, false
		}
		return observe(r), true
	}
	// reference observation of a value = the run that has it in the file only
	ref := [2]string{}
	for v := 0; v < 2; v++ {
		o, ok := run(vals[v].file, "")
		if !ok {
			c.Outcome("e2e-reference-run-failed")
			mc.HarnessError("C14 e2e reference run failed for %s: %s", k, o)
		}
		ref[v] = o
	}
	if ref[0] == ref[1] {
		mc.HarnessError("C14 e2e: key %s has no observable effect (%q)", k, ref[0])
	}
	for v := 0; v < 2; v++ {
		for _, cse := range []struct{ name, file, line string }{{"line-only", "", vals[v].line}, {"line-over-file", vals[1-v].file, vals[v].line}, {"line-equals-file", vals[v].file, vals[v].line}} {
			o, ok := run(cse.file, cse.line)
			c.Eval(1)
			c.Transition(1)
			h := mc.NewHasher().S("e2e").S(k).S(cse.name).I(v).Sum()
			c.State(h)
			c.NonTrivial(h)
			if !ok || o != ref[v] {
				c.Violate("result-files-do-not-reflect-line-value key="+k+" "+cse.name, fmt.Sprintf("key %s: file value %q, line value %q: result files show %q, a run with the line value in the file shows %q", k, cse.file, cse.line, o, ref[v]), nil)
			}
		}
	}
	// two runs of ONE session that differ only in the value on the line (the project files stay as they are): the later run
	// must show its own value, not what the earlier run derived from the shared inputs
	for v := 0; v < 2; v++ {
		b := e1Base{Soil: "loam12", GW: 99, InitW: 0.6, InitN: 20, ET: 3}
		_ = b
		if o, ok := run("", vals[v].line); !ok || o != ref[v] { // (writes the project without the key in the file)
			continue // already reported above
		}
		session := hermes.NewHermesSession()
		var obs [2]string
		okBoth := true
		for i, vi := range []int{v, 1 - v} {
			p := e1Project(e1Base{Soil: "loam12", GW: 99, InitW: 0.6, InitN: 20, ET: 3}, 20)
			r := proj.RunSession(session, root, append(p.Args(root, k+"="+vals[vi].line), fmt.Sprintf("poligonID=S%d", i)), fmt.Sprintf("[%d]", i), nil)
			c.Trace(1)
			if !r.Success {
				okBoth = false
				obs[i] = "run failed: " + r.Err + r.Panic
			} else {
				obs[i] = observe(r)
			}
		}
		session.Close()
		c.Eval(1)
		c.Transition(1)
		h := mc.NewHasher().S("e2e-session").S(k).I(v).Sum()
		c.State(h)
		c.NonTrivial(h)
		if !okBoth || obs[1] != ref[1-v] {
			c.Violate("later-run-of-the-session-does-not-reflect-its-line-value key="+k, fmt.Sprintf("key %s: one session, first line %s=%s, second line %s=%s: the second run's result files show %q, a fresh run with that value shows %q", k, k, vals[v].line, k, vals[1-v].line, obs[1], ref[1-v]), nil)
		}
	}
	c.Outcome("e2e-ok")
	c.Sample(sp)
}

// minimalDailyWith: daily output configuration with the date column and the given float variables.
func minimalDailyWith(vars ...string) string {
	var b strings.Builder
	b.WriteString("FillCharacter: ' '\nSeperatorCharacter: ','\nNaValue: n.a.\nDataColumns:\n- Format: '%s'\n  VariableName: AKTUELL\n")
	for _, v := range vars {
		parts := strings.Split(v, ":")
		fmt.Fprintf(&b, "- Format: '%%.6f'\n  VariableName: %s\n", parts[0])
		for i, ix := range parts[1:] {
			fmt.Fprintf(&b, "  VarIndex%d: %s\n", i+1, ix)
		}
	}
	return b.String()
}

// c14Session: sequences of runs in one session; every run's effective configuration must follow its own line only.
func c14Session(sp c14Spec, c *mc.Ctx, root string) {
	for _, k := range strings.Split(sp.E2E, ",") {
		for v := 0; v < 2; v++ {
			// the file holds value v for the key in half of the sequences, nothing in the other half
			// ... and a third kind: the project has no configuration file at all when the session begins (the program
			// writes one with the documented defaults; what an earlier line carried must not end up in it)
			for fi, inFile := range []bool{false, true, false} {
				noFile := fi == 2
				if noFile && (k == "Dateformat" || k == "EndDate") {
					continue // (these two need a companion value in the file, see below)
				}
				fileCase := c14Case{}
				if inFile {
					fileCase.File = map[string]int{k: v}
				}
				seq := []c14Case{
					{File: fileCase.File, Line: map[string]int{k: 1 - v}, NoFile: noFile},
					{File: fileCase.File, NoFile: noFile},
					{File: fileCase.File, Line: map[string]int{k: v}, NoFile: noFile},
					{File: fileCase.File, NoFile: noFile},
				}
				if e := c14Expected(seq[1], root); !noFile && (e["Dateformat"] == "DateENlong" || k == "Dateformat" || k == "EndDate") {
					for i := range seq { // month-first format needs an explicit end date valid in both formats
						if seq[i].File == nil {
							seq[i].File = map[string]int{}
						}
						f := map[string]int{"EndDate": 0}
						for kk, vv := range seq[i].File {
							f[kk] = vv
						}
						seq[i].File = f
					}
				}
				c14WriteConfig(root, "cfg", seq[0])
				session := hermes.NewHermesSession()
				for ri, cs := range seq {
					exp := c14Expected(cs, root)
					args := append([]string{"project=cfg", "plotNr=1"}, c14Args(cs)...)
					var got map[string]string
					pr := &hermes.VerifProbe{Config: func(g *hermes.GlobalVarsMain, cfg *hermes.Config, hp *hermes.HFilePath) {
						got = map[string]string{}
						rv := reflect.ValueOf(*cfg)
						for _, kk := range c14Keys() {
							got[kk] = fmt.Sprintf("%v", rv.FieldByName(kk).Interface())
						}
						panic(c14Abort{})
					}}
					proj.RunSession(session, root, args, fmt.Sprintf("[%d]", ri), pr)
					c.Trace(1)
					c.Transition(1)
					h := mc.NewHasher().S("session").S(k).I(v).I(ri).I(b2i(inFile)).I(fi).Sum()
					c.State(h)
					if ri > 0 {
						c.NonTrivial(h)
					}
					if got == nil {
						c.Violate("configuration-not-read session", fmt.Sprintf("key %s: run %d of the session did not reach the end of the configuration reader", k, ri+1), nil)
						break
					}
					for _, kk := range c14Keys() {
						c.Eval(1)
						if got[kk] != exp[kk] {
							c.Violate(fmt.Sprintf("value-leaks-between-runs-of-a-session key=%s", kk), fmt.Sprintf("one session, same project (without a configuration file at the start: %v), lines %v then this run (line %v, file has %s=%v): effective %s = %q, expected %q",
								noFile, c14Args(seq[0]), c14Args(cs), k, inFile, kk, got[kk], exp[kk]), nil)
						}
					}
				}
				session.Close()
			}
		}
	}
	c.Outcome("session-ok")
	c.Sample(sp)
}
