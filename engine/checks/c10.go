package checks

import (
	"encoding/json"
	"fmt"
	"math"
	"os"
	"path/filepath"
	"sort"
	"strconv"
	"strings"
	"time"

	"github.com/zalf-rpm/Hermes2Go/hermes"
	"verif/mc"
	"verif/proj"
)

// C10 — every scheduled fertilisation, irrigation, tillage, sowing and harvest inside the simulated period is carried
// out exactly once, in schedule order, on time and in full; actions before the start are ignored.
// Observed through the management event file (all event kinds enabled) and through the jumps of the state variables.

type c10Ev struct {
	Off  int     `json:"off"` // day offset from the simulation start
	Amt  float64 `json:"amt"` // kg N/ha | mm | cm depth
	Kind string  `json:"kind,omitempty"`
}

type c10Spec struct {
	What   string    `json:"what"` // fert | till | irr | crop | mixed
	Window string    `json:"window"` // start | end
	Scheds [][]c10Ev `json:"scheds,omitempty"`
	Fmt    string    `json:"fmt"`
	Other  int       `json:"other,omitempty"` // 0 none, 1 other field's events before, 2 between, 3 after ours
	Factor float64   `json:"factor,omitempty"` // global fertilisation factor (%)
	Zero   bool      `json:"zero,omitempty"`   // global fertilisation factor 0 % (unfertilised scenario)
	Start  string    `json:"start,omitempty"`  // first simulated day ("" = 10 April 2001)
	Ext    int       `json:"ext,omitempty"`    // the annual output date lies Ext days after the end date: the run (the simulated period) is extended up to it
	NoTill bool      `json:"no_till,omitempty"` // the project has no tillage file (the file is optional)
	After  bool      `json:"after,omitempty"`  // a crop is sown on day +1 and harvested on day +5 and is the LAST entry of the rotation file: the events lie behind the last harvest
	Spell  int       `json:"spell,omitempty"`  // how the schedule files are written: 0 plain; 1 records indented by two blanks; 2 by a tab; 3 fields separated by tabs; 4 CRLF line ends
}

const c10Len = 24 // simulated days: offsets 0..23

var c10Start = e1Start // first simulated day of the scenario being executed

var c10Ferts = []string{"KAS", "RG", "SM", "AHL", "NIT"}

// c10Multisets enumerates all ascending event lists of <= maxN events over the offsets with at most perDay per day.
func c10Multisets(offs []int, maxN, perDay int) [][]int {
	var out [][]int
	var rec func(start int, cur []int)
	rec = func(start int, cur []int) {
		if len(cur) > 0 {
			out = append(out, append([]int{}, cur...))
		}
		if len(cur) == maxN {
			return
		}
		for i := start; i < len(offs); i++ {
			n := 0
			for _, c := range cur {
				if c == offs[i] {
					n++
				}
			}
			if n >= perDay {
				continue
			}
			rec(i, append(cur, offs[i]))
		}
	}
	rec(0, nil)
	return out
}

func c10Specs(tier string, seed int) []c10Spec {
	var out []c10Spec
	maxN := 4
	if tier == "thorough" {
		maxN = 6
	}
	fmts := []string{"DateDElong", "DateENlong", "DateDEshort", "DateENshort"}
	win := map[string][]int{"start": {-3, -2, -1, 0, 1, 2, 3, 4, 5, 6, 7, 8}, "end": {c10Len - 9, c10Len - 8, c10Len - 7, c10Len - 6, c10Len - 5, c10Len - 4, c10Len - 3, c10Len - 2, c10Len - 1, c10Len, c10Len + 1, c10Len + 2}}
	n := 0
	for _, what := range []string{"fert", "till", "irr"} {
		for _, w := range []string{"start", "end"} {
			per := 2
			if what == "irr" {
				per = 1
			}
			ms := c10Multisets(win[w], maxN, per)
			if what == "irr" && tier == "thorough" {
				ms = c10Multisets(win[w], maxN+1, per)
			}
			// chunks of 25 schedules per scenario
			for i := 0; i < len(ms); i += 25 {
				sp := c10Spec{What: what, Window: w, Fmt: fmts[n%4], Other: (n / 4) % 4, Factor: []float64{100, 50, 120}[(n/3)%3], Spell: (n / 2) % 5}
				for _, m := range ms[i:min(i+25, len(ms))] {
					var evs []c10Ev
					for j, off := range m {
						e := c10Ev{Off: off}
						switch what {
						case "fert":
							e.Kind = c10Ferts[(n+j)%len(c10Ferts)]
							e.Amt = float64(20 + 10*((n+j)%5))
						case "till":
							e.Amt = float64([]int{10, 20, 0, 30, 5}[(n+j)%5]) // depth 0: nothing is mixed and no event is written, the entry still takes its turn
							e.Kind = fmt.Sprint((n + j) % 2)
						case "irr":
							e.Amt = float64(5 + 5*((n+j)%4))
							e.Kind = fmt.Sprint(10 * ((n + j) % 3)) // NO3 concentration
						}
						evs = append(evs, e)
					}
					sp.Scheds = append(sp.Scheds, evs)
				}
				n++
				out = append(out, sp)
				if w == "end" && (tier == "thorough" || n%2 == 0) {
					// the same schedules in a run that is extended beyond its end date up to the annual output date:
					// the days up to that date are simulated days, events dated there are inside the period
					sp.Ext = 6
					out = append(out, sp)
				}
			}
		}
	}
	// periods across a year change (into a normal year, into a leap year, out of a leap year): all event lists of <= 3
	// events on the days 29 December .. 3 January
	for _, st := range []string{"2001-12-22", "2003-12-22", "2004-12-22"} {
		for _, what := range []string{"fert", "till", "irr"} {
			per := 2
			if what == "irr" {
				per = 1
			}
			ms := c10Multisets([]int{7, 8, 9, 10, 11, 12}, 3, per)
			sp := c10Spec{What: what, Window: "start", Fmt: "DateDElong", Factor: 100, Start: st}
			for j0, m := range ms {
				var evs []c10Ev
				for j, off := range m {
					e := c10Ev{Off: off}
					switch what {
					case "fert":
						e.Kind, e.Amt = c10Ferts[(j0+j)%len(c10Ferts)], float64(20+10*((j0+j)%5))
					case "till":
						e.Amt, e.Kind = float64([]int{10, 20, 30}[(j0+j)%3]), fmt.Sprint((j0+j)%2)
					case "irr":
						e.Amt, e.Kind = float64(5+5*((j0+j)%4)), fmt.Sprint(10*((j0+j)%3))
					}
					evs = append(evs, e)
				}
				sp.Scheds = append(sp.Scheds, evs)
			}
			out = append(out, sp)
		}
	}
	// events behind the last harvest of the rotation file (the file ends before the run does): all event lists of <= 3
	// events on the days +8 .. +15
	for _, what := range []string{"fert", "till", "irr"} {
		per := 2
		if what == "irr" {
			per = 1
		}
		ms := c10Multisets([]int{8, 9, 10, 11, 12, 13, 14, 15}, 3, per)
		for i := 0; i < len(ms); i += 30 {
			sp := c10Spec{What: what, Window: "start", Fmt: fmts[(i/30)%4], Factor: 100, After: true}
			for j0, m := range ms[i:min(i+30, len(ms))] {
				var evs []c10Ev
				for j, off := range m {
					e := c10Ev{Off: off}
					switch what {
					case "fert":
						e.Kind, e.Amt = c10Ferts[(j0+j)%len(c10Ferts)], float64(20+10*((j0+j)%5))
					case "till":
						e.Amt, e.Kind = float64([]int{10, 20, 30}[(j0+j)%3]), fmt.Sprint((j0+j)%2)
					case "irr":
						e.Amt, e.Kind = float64(5+5*((j0+j)%4)), fmt.Sprint(10*((j0+j)%3))
					}
					evs = append(evs, e)
				}
				sp.Scheds = append(sp.Scheds, evs)
			}
			out = append(out, sp)
		}
	}
	// projects without a tillage file (it is optional): fertilisation and irrigation lists on the days +1 .. +6
	for _, what := range []string{"fert", "irr"} {
		per := 2
		if what == "irr" {
			per = 1
		}
		ms := c10Multisets([]int{1, 2, 3, 4, 5, 6}, 2, per)
		sp := c10Spec{What: what, Window: "start", Fmt: "DateDElong", Factor: 100, NoTill: true}
		for j0, m := range ms {
			var evs []c10Ev
			for j, off := range m {
				e := c10Ev{Off: off}
				if what == "fert" {
					e.Kind, e.Amt = c10Ferts[(j0+j)%len(c10Ferts)], float64(20+10*((j0+j)%5))
				} else {
					e.Amt, e.Kind = float64(5+5*((j0+j)%4)), fmt.Sprint(10*((j0+j)%3))
				}
				evs = append(evs, e)
			}
			sp.Scheds = append(sp.Scheds, evs)
		}
		out = append(out, sp)
	}
	// long schedules: hundreds of events of one kind (the event tables are filled far beyond their first few slots),
	// with and without events before the start
	for _, n := range []int{90, 520, 1150} {
		for _, pre := range []int{0, 3} {
			if tier == "thorough" || !(n == 1150 && pre == 0) {
				out = append(out, c10Spec{What: "irr-many", Window: "start", Fmt: "DateDElong", Other: n, Factor: float64(pre)})
			}
		}
	}
	// the unfertilised scenario: factor 0 % (every amount becomes 0, timing unchanged), also 1 % and 300 %
	out = append(out, c10Spec{What: "fert-types", Window: "start", Fmt: "DateDElong", Zero: true}, c10Spec{What: "fert-types", Window: "start", Fmt: "DateDElong", Factor: 1}, c10Spec{What: "fert-types", Window: "start", Fmt: "DateDElong", Factor: 300})
	for _, f := range fmts {
		out = append(out, c10Spec{What: "mixed", Window: "start", Fmt: f, Zero: true})
	}
	// every fertiliser type of the table, alone, on day 3
	out = append(out, c10Spec{What: "fert-types", Window: "start", Fmt: "DateDElong", Factor: 100}, c10Spec{What: "fert-types", Window: "start", Fmt: "DateENshort", Factor: 70})
	// sowing and harvest of 1-2 crops inside the period
	for _, f := range fmts {
		out = append(out, c10Spec{What: "crop", Window: "start", Fmt: f})
	}
	// combined schedules: fertilisation, tillage and irrigation on the same and on neighbouring days
	for _, f := range fmts {
		out = append(out, c10Spec{What: "mixed", Window: "start", Fmt: f, Factor: 100})
	}
	return out
}

func init() {
	mc.Register(&mc.Check{
		ID:        "C10",
		Technique: "exhaustive enumeration of management schedules (all ascending event lists up to a size bound on a 12-day window across the simulation start and across the end, per action kind; all fertiliser types; sowing/harvest pairs; combined schedules) through complete real runs; executed actions read from the management event file and from the jumps of the state variables and compared with a reference schedule",
		Rule: "scenario = 25 schedules of one action kind (fertilisation / tillage: <= 2 events per day; irrigation: <= 1 per day) over offsets -3..8 around the start or -9..+2 around the end, date format and other-field lines rotating; reference: events before the start never execute, irrigation on its date, fertilisation and tillage on date+1 (second of a same-day pair on date+2), each exactly once in order, amounts from the fertiliser table x quantity x global factor; events whose execution day lies after the end date are not judged; " +
			"state = (schedule, day, executed events); non-trivial = schedule with a same-day pair, consecutive days, or events on both sides of the start/end",
		Assumptions: []string{"bare soil for fertilisation/tillage/irrigation schedules (tillage between sowing and harvest is a run error by design)", "amount reference re-implements the fertiliser-table arithmetic (Ntot, direct share, fast/slow organic shares, NH4 share, loss)",
			"a third event directly after a same-day pair (D, D, D+1) can only run two days after its date because one event per kind and day is executed: reported as its own class"},
		Bound: func(t string) string {
			if t == "quick" {
				return "all event lists of <= 4 events on 12 offsets x 2 windows x 3 kinds (4 date formats, 4 other-field layouts, 3 factors rotating); 29 fertiliser types; sowing/harvest pairs; mixed schedules"
			}
			return "all event lists of <= 6 events (irrigation <= 7) on 12 offsets x 2 windows x 3 kinds; 29 fertiliser types; sowing/harvest pairs; mixed schedules"
		},
		Budget: func(t string) time.Duration {
			if t == "quick" {
				return 150 * time.Second
			}
			return 40 * time.Minute
		},
		Scenarios: func(tier string, seed int) []json.RawMessage { return mc.Specs(c10Specs(tier, seed)) },
		Run:       c10Run,
	})
}

type c10FertRow struct{ ntot, ndir, nfst, nslo, nh4, loss float64 }

var c10FertTable map[string]c10FertRow
var c10FertOrder []string

func c10LoadFert() {
	if c10FertTable != nil {
		return
	}
	c10FertTable = map[string]c10FertRow{}
	b, err := os.ReadFile(proj.RepoDir() + "/examples/parameter/FERTILIZ.TXT")
	if err != nil {
		mc.HarnessError("fertiliser table: %v", err)
	}
	for i, l := range strings.Split(string(b), "\n") {
		f := strings.Fields(l)
		if i == 0 || len(f) < 7 {
			continue
		}
		v := func(k int) float64 { x, _ := strconv.ParseFloat(f[k], 64); return x }
		if _, dup := c10FertTable[f[0]]; dup {
			continue
		}
		c10FertTable[f[0]] = c10FertRow{v(1), v(2), v(3), v(4), v(5), v(6)}
		c10FertOrder = append(c10FertOrder, f[0])
	}
}

// reference amounts of one fertilisation (kg N/ha): direct mineral N, NH4 part, fast and slow organic N
func c10FertAmounts(kind string, qty, factor float64) (ndir, nh4, fast, slow float64) {
	r := c10FertTable[kind]
	m := qty * factor / 100
	total := m * r.ntot
	direct := total * r.ndir
	nh4 = direct * r.nh4 * (1 - r.loss)
	ndir = direct - direct*r.nh4*r.loss
	fast = (total - ndir) * r.nfst
	slow = (total - ndir) * r.nslo
	return
}

type c10Exec struct {
	day  int // offset from start
	kind string
	text string
}

func c10Run(raw json.RawMessage, c *mc.Ctx) {
	sp := mc.Decode[c10Spec](raw)
	c10LoadFert()
	c10Start = e1Start
	if sp.Start != "" {
		c10Start = sp.Start
	}
	switch sp.What {
	case "irr-many":
		c10Many(c, sp.Other, int(sp.Factor))
	case "fert-types":
		for i, k := range c10FertOrder {
			c10RunSchedule(c, sp, "fert", []c10Ev{{Off: 3, Amt: float64(30 + i), Kind: k}}, nil, nil, nil)
		}
	case "crop":
		for a := 1; a <= 4; a++ {
			for b := a + 3; b <= a+9; b += 2 {
				rot := []proj.CropEntry{{Crop: "SW", Sow: isoAdd(c10Start, a), Harvest: isoAdd(c10Start, b), Rex: 50}}
				c10RunSchedule(c, sp, "crop", nil, nil, nil, rot)
				if b+5 < c10Len-1 {
					rot2 := append(append([]proj.CropEntry{}, rot...), proj.CropEntry{Crop: "SM", Sow: isoAdd(c10Start, b+2), Harvest: isoAdd(c10Start, b+5), Rex: 0})
					c10RunSchedule(c, sp, "crop", nil, nil, nil, rot2)
				}
			}
		}
	case "mixed":
		for d := 1; d <= 6; d++ {
			for shift := 0; shift <= 2; shift++ {
				f := []c10Ev{{Off: d, Amt: 40, Kind: "KAS"}, {Off: d + shift, Amt: 30, Kind: "RG"}}
				t := []c10Ev{{Off: d, Amt: 20, Kind: "1"}, {Off: d + 1, Amt: 10, Kind: "0"}}
				ir := []c10Ev{{Off: d, Amt: 10, Kind: "20"}, {Off: d + shift + 1, Amt: 15, Kind: "0"}}
				c10RunSchedule(c, sp, "mixed", f, t, ir, nil)
			}
		}
	default:
		for _, evs := range sp.Scheds {
			switch sp.What {
			case "fert":
				c10RunSchedule(c, sp, "fert", evs, nil, nil, nil)
			case "till":
				c10RunSchedule(c, sp, "till", nil, evs, nil, nil)
			case "irr":
				c10RunSchedule(c, sp, "irr", nil, nil, evs, nil)
			}
		}
	}
	c.Sample(map[string]interface{}{"what": sp.What, "window": sp.Window, "format": sp.Fmt, "schedules": len(sp.Scheds), "first": firstSched(sp.Scheds)})
}

func firstSched(s [][]c10Ev) interface{} {
	if len(s) == 0 {
		return nil
	}
	return s[0]
}

// c10File renders a management input file with our field's events and (optionally) another field's lines around them.
var c10Spell int // spelling of the schedule files of the scenario being executed (set by c10RunSchedule)

func c10File(header string, rows []string, other int, otherRow string) (out string) {
	defer func() {
		if c10Spell == 4 {
			out = strings.ReplaceAll(out, "\n", "\r\n")
		}
	}()
	respell := func(r []string) []string {
		var o []string
		for _, x := range r {
			switch c10Spell {
			case 1:
				x = "  " + x
			case 2:
				x = "\t" + x
			case 3:
				x = strings.Join(strings.Fields(x), "\t")
			}
			o = append(o, x)
		}
		return o
	}
	rows = respell(rows)
	var b strings.Builder
	b.WriteString(header)
	put := func(r []string) {
		for _, x := range r {
			b.WriteString(x + "\n")
		}
	}
	switch other {
	case 1:
		put([]string{otherRow, otherRow})
		put(rows)
	case 2:
		h := len(rows) / 2
		put(rows[:h])
		put([]string{otherRow})
		put(rows[h:])
	case 3:
		put(rows)
		put([]string{otherRow})
	default:
		put(rows)
	}
	b.WriteString("end\n")
	return b.String()
}

func c10RunSchedule(c *mc.Ctx, sp c10Spec, what string, fert, till, irr []c10Ev, rot []proj.CropEntry) {
	root := scratchRoot()
	defer os.RemoveAll(root)
	factor := sp.Factor
	if factor == 0 {
		factor = 100
	}
	if sp.Zero {
		factor = 0
	}
	b := e1Base{Soil: "loam12", GW: 99, InitW: 0.6, InitN: 20, ET: 3, Start: c10Start}
	p := e1Project(b, c10Len)
	p.Meas.Date = isoAdd(c10Start, 0) // measurement on the start day: no overwrite inside the judged days
	p.Config["Dateformat"] = sp.Fmt
	p.Config["DivideCentury"] = "50"
	p.Config["EndDate"] = proj.DateStr(sp.Fmt, proj.D(isoAdd(c10Start, c10Len-1)))
	p.Config["ManagementEvents"] = "1"
	p.Config["Fertilization"] = fmt.Sprint(factor)
	p.Config["AnnualOutputDate"] = "0101"
	if sp.Ext > 0 {
		p.Config["AnnualOutputDate"] = proj.DateStr(sp.Fmt, proj.D(isoAdd(c10Start, c10Len-1+sp.Ext)))[:4]
	}
	if sp.After && rot == nil {
		p.Rotation = append(p.Rotation[:1], proj.CropEntry{Crop: "SW", Sow: isoAdd(c10Start, 1), Harvest: isoAdd(c10Start, 5), Rex: 50})
	}
	if rot != nil {
		p.Rotation = append(p.Rotation[:1], rot...)
		p.Rotation = append(p.Rotation, proj.CropEntry{Crop: "WW", Sow: isoAdd(c10Start, 200), Harvest: isoAdd(c10Start, 400)})
	}
	ds := func(off int) string { return proj.DateStr(sp.Fmt, proj.D(isoAdd(c10Start, off))) }
	c10Spell = sp.Spell
	var fr, tr, ir []string
	for _, e := range fert {
		fr = append(fr, fmt.Sprintf("%-9s %g %s  %s", p.Field, e.Amt, e.Kind, ds(e.Off)))
	}
	for _, e := range till {
		tr = append(tr, fmt.Sprintf("%-9s %g %s   %s", p.Field, e.Amt, e.Kind, ds(e.Off)))
	}
	for _, e := range irr {
		ir = append(ir, fmt.Sprintf("%-9s %g  %s %s", p.Field, e.Amt, e.Kind, ds(e.Off)))
	}
	p.Files = map[string]string{
		"fert_" + p.ID + ".txt": c10File("Field_ID  N   Frt date\n", fr, sp.Other, fmt.Sprintf("%-9s 77 KAS  %s", "OTHER", ds(2))),
		"til_" + p.ID + ".txt":  c10File("Field_ID  Ti Typ date\n          cm\n", tr, sp.Other, fmt.Sprintf("%-9s 25 1   %s", "OTHER", ds(2))),
		"irr_" + p.ID + ".txt":  c10File("Field_ID  Ir N03 date\n          mm mg/l \n", ir, sp.Other, fmt.Sprintf("%-9s 33  5 %s", "OTHER", ds(2))),
	}
	if len(irr) > 0 {
		p.Irr = []proj.Irr{{Date: isoAdd(c10Start, 1), MM: 1}} // switches the irrigation flag of the polygon file on; the file itself is overridden above
	}
	word := make([]string, c10Len+2+sp.Ext)
	for i := range word {
		word[i] = "mild"
	}
	p.Weather = e1Weather(0, word, false)
	start := proj.ZEIT(proj.D(c10Start))
	// ---- observed state jumps
	type dayObs struct{ dsumm, fast, slow, irrig, c10, fluss float64 }
	// baseline: the same project without any scheduled event (the residues of the initial crop are worked in on day +1)
	files := p.Files
	p.Files = map[string]string{
		"fert_" + p.ID + ".txt": c10File("Field_ID  N   Frt date\n", nil, 0, ""),
		"til_" + p.ID + ".txt":  c10File("Field_ID  Ti Typ date\n          cm\n", nil, 0, ""),
		"irr_" + p.ID + ".txt":  c10File("Field_ID  Ir N03 date\n          mm mg/l \n", nil, 0, ""),
	}
	p.Write(root)
	base := map[int]*dayObs{}
	{
		var d0 dayObs
		proj.Run(root, p.Args(root), &hermes.VerifProbe{
			DayStart: func(g *hermes.GlobalVarsMain, zeit int) {
				d0 = dayObs{dsumm: g.DSUMM, fast: c10Pool(g.NFOS[:], g.MINFOS[:]), slow: c10Pool(g.NAOS[:], g.MINAOS[:]), c10: g.C1[0]}
			},
			AfterEvatra: func(g *hermes.GlobalVarsMain, zeit int, w *hermes.WaterSharedVars) {
				base[zeit-start] = &dayObs{irrig: g.EffectiveIRRIG, c10: g.C1[0] - d0.c10 - g.DEPOS/365, fluss: g.FLUSS0}
			},
			DayEnd: func(g *hermes.GlobalVarsMain, zeit int, steps, wdt float64, cs *hermes.CropSharedVars, w *hermes.WaterSharedVars) {
				o := base[zeit-start]
				o.dsumm, o.fast, o.slow = g.DSUMM-d0.dsumm, c10Pool(g.NFOS[:], g.MINFOS[:])-d0.fast, c10Pool(g.NAOS[:], g.MINAOS[:])-d0.slow
			},
		})
	}
	os.RemoveAll(root + "/out")
	p.Files = files
	p.Write(root)
	if sp.NoTill {
		os.Remove(filepath.Join(root, "project", p.ID, "til_"+p.ID+".txt"))
	}

	obs := map[int]*dayObs{}
	var d0 dayObs
	pr := &hermes.VerifProbe{
		DayStart: func(g *hermes.GlobalVarsMain, zeit int) {
			d0 = dayObs{dsumm: g.DSUMM, fast: c10Pool(g.NFOS[:], g.MINFOS[:]), slow: c10Pool(g.NAOS[:], g.MINAOS[:]), c10: g.C1[0]}
		},
		AfterEvatra: func(g *hermes.GlobalVarsMain, zeit int, w *hermes.WaterSharedVars) {
			o := &dayObs{irrig: g.EffectiveIRRIG, c10: g.C1[0] - d0.c10 - g.DEPOS/365, fluss: g.FLUSS0}
			obs[zeit-start] = o
		},
		DayEnd: func(g *hermes.GlobalVarsMain, zeit int, steps, wdt float64, cs *hermes.CropSharedVars, w *hermes.WaterSharedVars) {
			o := obs[zeit-start]
			o.dsumm = g.DSUMM - d0.dsumm
			o.fast = c10Pool(g.NFOS[:], g.MINFOS[:]) - d0.fast
			o.slow = c10Pool(g.NAOS[:], g.MINAOS[:]) - d0.slow
			c.Transition(1)
		},
	}
	res := proj.Run(root, p.Args(root), pr)
	c.Trace(1)
	label := fmt.Sprintf("%s schedule fert=%v till=%v irr=%v rot=%d (%s, other-field layout %d, factor %g, file spelling %d)", what, fert, till, irr, len(rot), sp.Fmt, sp.Other, factor, sp.Spell)
	if !res.Success || res.Panic != "" {
		c.Outcome("run-error")
		c.Violate("run-error "+what, fmt.Sprintf("%s: run failed on a valid schedule: %s %s", label, res.Err, res.Panic), nil)
		return
	}
	// ---- executed events from the management file
	var got []c10Exec
	for _, l := range strings.Split(res.File("M"), "\n") {
		f := strings.Fields(l)
		if len(f) < 2 {
			continue
		}
		t, ok := c10ParseDate(sp.Fmt, f[0])
		if !ok {
			c.Violate("event-file-unparsable", fmt.Sprintf("%s: event line %q", label, l), nil)
			continue
		}
		got = append(got, c10Exec{day: proj.ZEIT(t) - start, kind: f[1], text: strings.Join(f[2:], " ")})
	}
	byKind := func(k string) []c10Exec {
		var o []c10Exec
		for _, g := range got {
			if g.kind == k {
				o = append(o, g)
			}
		}
		return o
	}
	last := c10Len - 1 + sp.Ext
	nt := false
	// ---- reference schedule per kind
	type want struct {
		day   int
		ev    c10Ev
		late    bool // execution later than one day after the date (cascade after a same-day pair)
		residue bool // ... because the start day's slot is taken by the residues of the initial crop
		judge   bool
	}
	// ref: residue = the incorporation of the initial crop's residues occupies the fertilisation slot of the start day
	ref := func(evs []c10Ev, delay int, residue bool) []want {
		var w []want
		prev := math.MinInt32
		residueChain := false
		if residue {
			prev = 0
			residueChain = true
		}
		for i, e := range evs {
			if e.Off < 0 {
				continue // before the simulation start: ignored
			}
			z := e.Off
			if z <= prev { // shifted behind the previous event of the same day
				z = prev + 1
			} else {
				residueChain = false
			}
			prev = z
			x := want{day: z + delay, ev: e, judge: z+delay <= last}
			if i > 0 && (evs[i-1].Off == e.Off || z != e.Off) {
				nt = true
			}
			// the property allows date .. date+1, and date+2 for the second event of a same-day pair
			allowed := e.Off + delay
			if i > 0 && evs[i-1].Off == e.Off {
				allowed++
			}
			if z+delay > allowed {
				x.late = true
				x.residue = residueChain
			}
			w = append(w, x)
		}
		return w
	}
	check := func(kind, evName string, evs []c10Ev, delay int, describe func(e c10Ev) string) {
		if evs == nil {
			n := 0
			for _, x := range byKind(evName) {
				if !(evName == "fertilization" && x.day == 1 && strings.HasPrefix(x.text, "Fertilizer: NH4:")) {
					n++
				}
			}
			if n > 0 && what != "mixed" {
				c.Violate("unscheduled-"+kind, fmt.Sprintf("%s: %d %s events executed although none is scheduled", label, n, evName), nil)
			}
			return
		}
		w := ref(evs, delay, evName == "fertilization")
		g := byKind(evName)
		if evName == "fertilization" {
			// the incorporation of the initial crop's residues is written as a fertilisation event without a name on day +1
			var g2 []c10Exec
			for _, x := range g {
				if !(x.day == 1 && !strings.Contains(x.text, "Fertilizer: K") && strings.HasPrefix(x.text, "Fertilizer: NH4:")) {
					g2 = append(g2, x)
				}
			}
			g = g2
		}
		c.Eval(1)
		gi := 0
		for _, x := range w {
			if !x.judge {
				// execution day after the end date: not judged; but an earlier execution would be wrong only if before its date
				continue
			}
			if kind == "tillage" && x.ev.Amt == 0 {
				continue // a tillage of depth 0 leaves no event; the entries after it are judged as usual
			}
			cls := ""
			if x.late {
				cls = " cascade-after-same-day-pair"
				if x.residue {
					cls = " start-day-slot-taken-by-initial-crop-residues"
				}
			}
			if gi >= len(g) {
				c.Violate(kind+"-not-executed"+cls+" "+sp.Window, fmt.Sprintf("%s: %s of day %+d (%s) was never carried out; executed: %v", label, kind, x.ev.Off, describe(x.ev), g), nil)
				return
			}
			if g[gi].day != x.day {
				c.Violate(kind+"-wrong-day"+cls+" "+sp.Window, fmt.Sprintf("%s: %s scheduled for day %+d was carried out on day %+d, expected day %+d; executed: %v", label, kind, x.ev.Off, g[gi].day, x.day, g), nil)
				return
			}
			if x.late {
				c.Violate(kind+"-late"+cls, fmt.Sprintf("%s: %s scheduled for day %+d is carried out on day %+d, more than one day after its date", label, kind, x.ev.Off, x.day), nil)
			}
			if want := describe(x.ev); want != "" && !c10SameEvent(want, g[gi].text) {
				c.Violate(kind+"-wrong-content "+sp.Window, fmt.Sprintf("%s: event on day %+d reads %q, expected %q", label, x.day, g[gi].text, want), nil)
			}
			gi++
		}
		if gi < len(g) {
			c.Violate(kind+"-executed-more-than-scheduled "+sp.Window, fmt.Sprintf("%s: %d %s events in the event file, %d expected inside the period: %v", label, len(g), evName, gi, g), nil)
		}
	}
	check("fertilisation", "fertilization", fert, 1, func(e c10Ev) string {
		nd, nh4, _, _ := c10FertAmounts(e.Kind, e.Amt, factor)
		s := "Fertilizer: " + e.Kind
		if nh4 != 0 || nd == 0 {
			s += fmt.Sprintf(" NH4: %v", nh4)
		}
		if nd != 0 {
			s += fmt.Sprintf(" Ndirect: %v", nd)
		}
		return s
	})
	check("tillage", "tillage", till, 1, func(e c10Ev) string { return fmt.Sprintf("Depth: %gcm Type: %s", e.Amt, e.Kind) })
	// (the irrigation event reports the amount in whole cm under a mm label; amounts are judged on the state below)
	check("irrigation", "irrigation", irr, 0, func(e c10Ev) string { return "" })
	// ---- state jumps: amounts enter the pools on exactly the execution days
	if fert != nil || irr != nil {
		wantD := map[int]*dayObs{}
		at := func(d int) *dayObs {
			if wantD[d] == nil {
				wantD[d] = &dayObs{}
			}
			return wantD[d]
		}
		for _, x := range ref(fert, 1, true) {
			nd, _, fa, sl := c10FertAmounts(x.ev.Kind, x.ev.Amt, factor)
			o := at(x.day)
			o.dsumm += nd
			o.fast += fa
			o.slow += sl
		}
		for _, x := range ref(irr, 0, false) {
			conc, _ := strconv.ParseFloat(x.ev.Kind, 64)
			o := at(x.day)
			o.irrig += x.ev.Amt / 10
			o.c10 += conc * x.ev.Amt * 0.01
		}
		for d := 1; d <= last; d++ { // day 0 carries the measurement overwrite; differences against the run without events
			o, bs := obs[d], base[d]
			if o == nil || bs == nil {
				continue
			}
			o = &dayObs{o.dsumm - bs.dsumm, o.fast - bs.fast, o.slow - bs.slow, o.irrig - bs.irrig, o.c10 - bs.c10, o.fluss - bs.fluss}
			w := wantD[d]
			if w == nil {
				w = &dayObs{}
			}
			c.Eval(5)
			c.State(mc.NewHasher().S(what).I(d).F(o.dsumm).F(o.irrig).F(o.fast).F(o.slow).Sum())
			// the irrigation water enters that day's infiltration: the flux through the surface exceeds that of the run without
			// events by the irrigation amount (up to the difference in evaporation, which a mild day keeps below 2 mm)
			if irr != nil && math.Abs(o.fluss-w.irrig) > 0.2 {
				c.Violate("irrigation-water-not-in-the-day's-infiltration "+sp.Window, fmt.Sprintf("%s: on day %+d the flux through the surface is %.4g cm above the run without events, the schedule irrigates %.4g cm that day", label, d, o.fluss, w.irrig), nil)
			}
			cmp := func(name string, got, want float64) {
				if math.Abs(got-want) > 1e-9*(1+math.Abs(want)) {
					c.Violate("state-jump "+name+" "+sp.Window, fmt.Sprintf("%s: on day %+d %s changed by %.10g, the schedule prescribes %.10g", label, d, name, got, want), nil)
				}
			}
			cmp("mineral fertiliser pool", o.dsumm, w.dsumm)
			cmp("irrigation water (cm)", o.irrig, w.irrig)
			cmp("N in irrigation water", o.c10, w.c10)
			if fert != nil && rot == nil {
				cmp("fast organic pool+counter", o.fast, w.fast)
				cmp("slow organic pool+counter", o.slow, w.slow)
			}
		}
	}
	// ---- sowing and harvest
	if rot != nil {
		var wantSow, wantHar []int
		for _, r := range rot {
			s, h := proj.ZEIT(proj.D(r.Sow))-start, proj.ZEIT(proj.D(r.Harvest))-start
			if s <= last {
				wantSow = append(wantSow, s)
			}
			if h <= last {
				wantHar = append(wantHar, h)
			}
		}
		days := func(e []c10Exec) []int {
			var o []int
			for _, x := range e {
				o = append(o, x.day)
			}
			return o
		}
		c.Eval(2)
		if g := days(byKind("sowing")); fmt.Sprint(g) != fmt.Sprint(wantSow) {
			c.Violate("sowing-days", fmt.Sprintf("%s: sowing events on days %v, rotation prescribes %v", label, g, wantSow), nil)
		}
		if g := days(byKind("harvest")); fmt.Sprint(g) != fmt.Sprint(wantHar) {
			c.Violate("harvest-days", fmt.Sprintf("%s: harvest events on days %v, rotation prescribes %v", label, g, wantHar), nil)
		}
		nt = true
	}
	h := mc.NewHasher().S(label).Sum()
	c.State(h)
	if nt {
		c.NonTrivial(h)
	}
	sort.Slice(got, func(i, j int) bool { return got[i].day < got[j].day })
	c.Outcome(fmt.Sprintf("ok %s %s", what, sp.Window))
}

// c10SameEvent compares "Key: value" lists numerically (the event file prints floats with %v).
func c10SameEvent(want, got string) bool {
	wf, gf := strings.Fields(want), strings.Fields(got)
	if len(wf) != len(gf) {
		return false
	}
	for i := range wf {
		if wf[i] == gf[i] {
			continue
		}
		num := func(s string) (float64, string, bool) {
			j := 0
			for j < len(s) && (s[j] == '-' || s[j] == '.' || s[j] == 'e' || s[j] == '+' || (s[j] >= '0' && s[j] <= '9')) {
				j++
			}
			v, err := strconv.ParseFloat(s[:j], 64)
			return v, s[j:], err == nil
		}
		a, ua, ok1 := num(wf[i])
		b, ub, ok2 := num(gf[i])
		if !ok1 || !ok2 || ua != ub || math.Abs(a-b) > 1e-9*(1+math.Abs(a)) {
			return false
		}
	}
	return true
}

func c10ParseDate(format, s string) (time.Time, bool) {
	layout := map[string]string{"DateDElong": "02.01.2006", "DateENlong": "01.02.2006", "DateDEshort": "02.01.06", "DateENshort": "01.02.06"}[format]
	t, err := time.Parse(layout, s)
	return t, err == nil
}

// c10Pool: organic pool plus its mineralised counter over the whole profile (conserved by mineralisation and tillage).
func c10Pool(pool, counter []float64) float64 {
	s := 0.0
	for _, v := range pool {
		s += v
	}
	for _, v := range counter {
		s += v
	}
	return s
}

// c10Many: n irrigations on consecutive days (pre of them dated before the simulation start): every event dated inside
// the period is carried out exactly once on its date, none of the earlier ones is.
func c10Many(c *mc.Ctx, n, pre int) {
	root := scratchRoot()
	defer os.RemoveAll(root)
	days := n + 10
	b := e1Base{Soil: "sand20", GW: 99, InitW: 0.5, InitN: 10, ET: 3}
	p := e1Project(b, days)
	p.Meas.Date = isoAdd(c10Start, 0)
	p.Config["ManagementEvents"] = "1"
	for i := 0; i < n; i++ {
		p.Irr = append(p.Irr, proj.Irr{Date: isoAdd(c10Start, i-pre+1), MM: float64(10 + 10*(i%3)), NConc: float64(i % 4)})
	}
	p.Weather = seasonWeather(proj.D(p.WeatherStart), days+12)
	p.Write(root)
	start := proj.ZEIT(proj.D(c10Start))
	applied := map[int]float64{}
	pr := &hermes.VerifProbe{AfterEvatra: func(g *hermes.GlobalVarsMain, zeit int, w *hermes.WaterSharedVars) {
		if g.EffectiveIRRIG > 0 {
			applied[zeit-start] = g.EffectiveIRRIG
		}
		c.Transition(1)
	}}
	res := proj.Run(root, p.Args(root), pr)
	c.Trace(1)
	label := fmt.Sprintf("%d irrigations on consecutive days from day %+d on", n, 1-pre)
	if !res.Success || res.Panic != "" {
		c.Violate("run-error irr-many", fmt.Sprintf("%s: run failed on a valid schedule: %s %s", label, res.Err, res.Panic), nil)
		return
	}
	evDays := map[int]int{}
	for _, l := range strings.Split(res.File("M"), "\n") {
		f := strings.Fields(l)
		if len(f) >= 2 && f[1] == "irrigation" {
			if t, ok := c10ParseDate("DateDElong", f[0]); ok {
				evDays[proj.ZEIT(t)-start]++
			}
		}
	}
	h := mc.NewHasher().S("irr-many").I(n).I(pre).Sum()
	c.State(h)
	c.NonTrivial(h)
	for i := 0; i < n; i++ {
		off := i - pre + 1
		want := float64(10+10*(i%3)) / 10
		c.Eval(2)
		switch {
		case off < 0 || off > days-1:
			continue
		case off == 0:
			continue // the start day carries the measurement; not judged
		case evDays[off] != 1:
			c.Violate("irrigation-not-executed-exactly-once long-schedule", fmt.Sprintf("%s: event %d of the schedule (day %+d) appears %d times in the event file", label, i+1, off, evDays[off]), nil)
			return
		case math.Abs(applied[off]-want) > 1e-9:
			c.Violate("irrigation-amount long-schedule", fmt.Sprintf("%s: on day %+d %.6g cm entered the infiltration, the schedule has %.6g cm", label, off, applied[off], want), nil)
			return
		}
	}
	for d, k := range evDays {
		if d < 1-pre+0 || d > n-pre || (d < 0) {
			c.Violate("unscheduled-irrigation long-schedule", fmt.Sprintf("%s: %d irrigation event(s) on day %+d, where none is scheduled inside the period", label, k, d), nil)
			return
		}
	}
	c.Outcome(fmt.Sprintf("long-schedule-ok n=%d", n))
}
