// Package mc is the shared harness of the model-checking engines: deterministic scenario
// enumeration, sharding over worker subprocesses (library code may call log.Fatal), state
// hashing for coverage statements, violation/replay artefacts, known findings and evidence.
package mc

import (
	"bufio"
	"crypto/sha1"
	"encoding/binary"
	"encoding/hex"
	"encoding/json"
	"fmt"
	"hash/fnv"
	"io"
	"math"
	"os"
	"os/exec"
	"path/filepath"
	"regexp"
	"runtime"
	"sort"
	"strconv"
	"strings"
	"sync"
	"time"
)

// Violation is one failed property evaluation.
type Violation struct {
	Property string          `json:"property"`
	Class    string          `json:"class"` // narrow identification used by known_findings.json
	What     string          `json:"what"`
	Spec     json.RawMessage `json:"spec"`
	Detail   interface{}     `json:"detail,omitempty"`
	Index    int             `json:"index,omitempty"` // 1 + index of the scenario in the enumeration (set by the parent)
}

// Ctx collects what one scenario execution covered.
type Ctx struct {
	Tier        string
	Seed        int
	states      map[uint64]struct{}
	nontrivial  map[uint64]struct{}
	Evals       int64
	Transitions int64
	Traces      int64
	Outcomes    map[string]int64
	Viol        []Violation
	Samples     []interface{}
	Extra       map[string]int64
	prop        string
	spec        json.RawMessage
	Replaying   bool
}

func newCtx(prop, tier string, seed int) *Ctx {
	return &Ctx{Tier: tier, Seed: seed, prop: prop, states: map[uint64]struct{}{}, nontrivial: map[uint64]struct{}{},
		Outcomes: map[string]int64{}, Extra: map[string]int64{}}
}

const maxStatesPerWorker = 6_000_000

// State records a visited state (by hash) and counts one transition into it.
func (c *Ctx) State(h uint64) {
	if len(c.states) < maxStatesPerWorker {
		c.states[h] = struct{}{}
	} else {
		c.Extra["state_set_capped"] = 1
	}
}

// NonTrivial records a distinct non-trivial case.
func (c *Ctx) NonTrivial(h uint64) {
	if len(c.nontrivial) < maxStatesPerWorker {
		c.nontrivial[h] = struct{}{}
	}
}
func (c *Ctx) Eval(n int)            { c.Evals += int64(n) }
func (c *Ctx) Transition(n int)      { c.Transitions += int64(n) }
func (c *Ctx) Trace(n int)           { c.Traces += int64(n) }
func (c *Ctx) Outcome(label string)  { c.Outcomes[label]++ }
func (c *Ctx) Count(k string, n int) { c.Extra[k] += int64(n) }
func (c *Ctx) Sample(v interface{}) {
	if len(c.Samples) < 3 {
		c.Samples = append(c.Samples, v)
	}
}

// Violate records a violation of the property for the current scenario.
func (c *Ctx) Violate(class, what string, detail interface{}) {
	if len(c.Viol) >= 20 {
		return
	}
	for _, v := range c.Viol {
		if v.Class == class {
			return // one per class and scenario is enough
		}
	}
	c.Viol = append(c.Viol, Violation{Property: c.prop, Class: class, What: what, Spec: c.spec, Detail: detail})
}

// Check describes one property check.
type Check struct {
	ID          string
	Technique   string
	Rule        string
	Assumptions []string
	Bound       func(tier string) string
	// Scenarios enumerates the complete scenario list of a tier, deterministically.
	Scenarios func(tier string, seed int) []json.RawMessage
	// Run executes one scenario on the real code and evaluates the property.
	Run func(spec json.RawMessage, c *Ctx)
	// OnCrash classifies a worker death (log.Fatal / unrecovered panic / OOM) during a scenario.
	// nil: a crash is reported as violation class "crash".
	OnCrash func(spec json.RawMessage, logTail string) (class, what string, isViolation bool)
	// Budget is the internal time budget; when reached enumeration stops with exhaustive=false.
	Budget func(tier string) time.Duration
	// Workers overrides the number of worker processes (default: NumCPU).
	Workers int
	// Prepare runs once in the parent (and in a replay) before any scenario: builds binaries etc.
	Prepare func(tier string)
}

var registry = map[string]*Check{}

func Register(c *Check) { registry[c.ID] = c }
func Get(id string) *Check { return registry[id] }
func IDs() []string {
	var ids []string
	for k := range registry {
		ids = append(ids, k)
	}
	sort.Strings(ids)
	return ids
}

// Specs marshals a slice of typed specs.
func Specs[T any](in []T) []json.RawMessage {
	out := make([]json.RawMessage, len(in))
	for i := range in {
		b, err := json.Marshal(in[i])
		if err != nil {
			panic(err)
		}
		out[i] = b
	}
	return out
}

// Decode unmarshals a spec; a malformed spec is a harness error.
func Decode[T any](raw json.RawMessage) T {
	var v T
	if err := json.Unmarshal(raw, &v); err != nil {
		HarnessError("bad spec: %v", err)
	}
	return v
}

func HarnessError(format string, a ...interface{}) {
	fmt.Fprintf(os.Stderr, "HARNESS-ERROR: "+format+"\n", a...)
	os.Exit(2)
}

// ---- hashing helpers -------------------------------------------------------------------------

type Hasher struct{ h uint64 }

func NewHasher() *Hasher { return &Hasher{h: 14695981039346656037} }
func (h *Hasher) U64(v uint64) *Hasher {
	for i := 0; i < 8; i++ {
		h.h ^= v & 0xff
		h.h *= 1099511628211
		v >>= 8
	}
	return h
}
func (h *Hasher) F(v float64) *Hasher { return h.U64(math.Float64bits(v)) }
func (h *Hasher) Fs(v []float64) *Hasher {
	for _, x := range v {
		h.F(x)
	}
	return h
}
func (h *Hasher) I(v int) *Hasher { return h.U64(uint64(v)) }
func (h *Hasher) S(s string) *Hasher {
	f := fnv.New64a()
	f.Write([]byte(s))
	return h.U64(f.Sum64())
}
func (h *Hasher) Sum() uint64 { return h.h }

// ---- worker protocol -------------------------------------------------------------------------

type wmsg struct {
	T    string `json:"t"` // begin | end | done
	I    int    `json:"i"`
	Ctx  *wctx  `json:"c,omitempty"`
	File string `json:"f,omitempty"`
}
type wctx struct {
	Evals, Transitions, Traces int64
	Outcomes                   map[string]int64
	Extra                      map[string]int64
	Viol                       []Violation
	Samples                    []interface{}
}

// WorkerMain runs shard k of n and reports over fd 3.
// WorkerUpto: when >= 0 the worker stops after the scenario with this index (re-execution in worker order).
var WorkerUpto = -1

func WorkerMain(chk *Check, tier string, seed, k, n, from int, deadline time.Time, statesFile string) {
	out := os.NewFile(3, "proto")
	if out == nil {
		HarnessError("worker: fd 3 missing")
	}
	w := bufio.NewWriter(out)
	enc := json.NewEncoder(w)
	specs := chk.Scenarios(tier, seed)
	c := newCtx(chk.ID, tier, seed)
	for i := k; i < len(specs); i += n {
		if i < from {
			continue
		}
		if WorkerUpto >= 0 && i > WorkerUpto {
			break
		}
		if time.Now().After(deadline) {
			c.Extra["budget_hit"] = 1
			break
		}
		enc.Encode(wmsg{T: "begin", I: i})
		w.Flush()
		c.spec = specs[i]
		c.Viol = nil
		c.Samples = nil
		e0, t0, r0 := c.Evals, c.Transitions, c.Traces
		oc, ex := c.Outcomes, c.Extra
		c.Outcomes, c.Extra = map[string]int64{}, map[string]int64{}
		chk.Run(specs[i], c)
		m := wmsg{T: "end", I: i, Ctx: &wctx{Evals: c.Evals - e0, Transitions: c.Transitions - t0, Traces: c.Traces - r0,
			Outcomes: c.Outcomes, Extra: c.Extra, Viol: c.Viol}}
		if i < 3*n {
			m.Ctx.Samples = c.Samples
		}
		enc.Encode(m)
		w.Flush()
		c.Outcomes, c.Extra = oc, ex
	}
	// dump hash sets
	f, err := os.Create(statesFile)
	if err == nil {
		bw := bufio.NewWriterSize(f, 1<<20)
		var b [9]byte
		for h := range c.states {
			b[0] = 0
			binary.LittleEndian.PutUint64(b[1:], h)
			bw.Write(b[:])
		}
		for h := range c.nontrivial {
			b[0] = 1
			binary.LittleEndian.PutUint64(b[1:], h)
			bw.Write(b[:])
		}
		bw.Flush()
		f.Close()
	}
	m := wmsg{T: "done", File: statesFile, Ctx: &wctx{Extra: c.Extra}}
	enc.Encode(m)
	w.Flush()
}

// ---- parent ----------------------------------------------------------------------------------

type Known struct {
	Findings []struct {
		Property   string `json:"property"`
		ClassRegex string `json:"class_regex"`
		What       string `json:"what"`
	} `json:"findings"`
	Fixed []string `json:"fixed"`
}

func VerifDir() string {
	if d := os.Getenv("VERIF_DIR"); d != "" {
		return d
	}
	return "/verif"
}

// OutDir is where evidence/ and replays/ are written: /verif, or $VERIF_OUT_DIR for self-test runs against a
// scratch copy of the repository (so that they never overwrite the evidence of the real tree).
func OutDir() string {
	if d := os.Getenv("VERIF_OUT_DIR"); d != "" {
		return d
	}
	return VerifDir()
}

func loadKnown() Known {
	var k Known
	b, err := os.ReadFile(filepath.Join(VerifDir(), "known_findings.json"))
	if err != nil {
		return k
	}
	if err := json.Unmarshal(b, &k); err != nil {
		HarnessError("known_findings.json: %v", err)
	}
	return k
}

// Scratch returns the scratch root for this process tree.
func Scratch() string {
	if d := os.Getenv("VERIF_SCRATCH"); d != "" {
		return d
	}
	base := os.Getenv("VERIF_SCRATCH_BASE")
	if base == "" {
		base = "/dev/shm"
	}
	if st, err := os.Stat(base); err != nil || !st.IsDir() {
		base = os.TempDir()
	}
	d := filepath.Join(base, "verif-"+strconv.Itoa(os.Getpid()))
	os.MkdirAll(d, 0o755)
	os.Setenv("VERIF_SCRATCH", d)
	return d
}

type agg struct {
	evals, transitions, traces int64
	outcomes, extra            map[string]int64
	viol                       []Violation
	samples                    []interface{}
	crashes                    int
	done                       int
}

// ParentMain runs the whole check and returns the process exit code.
func ParentMain(chk *Check, tier string, seed int) int {
	start := time.Now()
	scratch := Scratch()
	defer os.RemoveAll(scratch)
	if chk.Prepare != nil {
		chk.Prepare(tier)
		os.Setenv("VERIF_PREPARED", "1")
	}
	specs := chk.Scenarios(tier, seed)
	if len(specs) == 0 {
		HarnessError("%s: no scenarios", chk.ID)
	}
	budget := 100 * time.Minute
	if chk.Budget != nil {
		budget = chk.Budget(tier)
	}
	if s := os.Getenv("VERIF_BUDGET_S"); s != "" {
		if v, err := strconv.Atoi(s); err == nil {
			budget = time.Duration(v) * time.Second
		}
	}
	deadline := start.Add(budget)
	nw := runtime.NumCPU()
	if chk.Workers > 0 {
		nw = chk.Workers
	}
	if s := os.Getenv("VERIF_WORKERS"); s != "" {
		if v, err := strconv.Atoi(s); err == nil && v > 0 {
			nw = v
		}
	}
	if nw > len(specs) {
		nw = len(specs)
	}
	numWorkers = nw
	a := &agg{outcomes: map[string]int64{}, extra: map[string]int64{}}
	var mu sync.Mutex
	var wg sync.WaitGroup
	stateFiles := make([][]string, nw)
	exe, _ := os.Executable()
	for k := 0; k < nw; k++ {
		wg.Add(1)
		go func(k int) {
			defer wg.Done()
			from := 0
			for attempt := 0; ; attempt++ {
				sf := filepath.Join(scratch, fmt.Sprintf("states-%d-%d.bin", k, attempt))
				logf := filepath.Join(scratch, fmt.Sprintf("worker-%d.log", k))
				cur, finished := runWorker(exe, chk, tier, seed, k, nw, from, deadline, sf, logf, a, &mu)
				mu.Lock()
				stateFiles[k] = append(stateFiles[k], sf)
				mu.Unlock()
				if finished {
					return
				}
				// worker died while executing scenario cur
				tail := tailOf(logf, 1500)
				mu.Lock()
				a.crashes++
				a.outcomes["worker-death"]++
				class, what, isV := "crash", "process died (log.Fatal/panic) while executing the scenario: "+lastLine(tail), true
				if chk.OnCrash != nil && cur >= 0 {
					class, what, isV = chk.OnCrash(specs[cur], tail)
				}
				if cur < 0 {
					mu.Unlock()
					HarnessError("worker %d died outside a scenario: %s", k, tail)
				}
				if isV {
					a.viol = append(a.viol, Violation{Property: chk.ID, Class: class, What: what, Spec: specs[cur], Detail: map[string]string{"log_tail": tail}})
				}
				mu.Unlock()
				from = cur + 1
			}
		}(k)
	}
	wg.Wait()

	// union of state hashes
	states, nontriv := map[uint64]struct{}{}, map[uint64]struct{}{}
	for _, fs := range stateFiles {
		for _, f := range fs {
			readStates(f, states, nontriv)
		}
	}
	return finish(chk, tier, seed, start, len(specs), a, len(states), len(nontriv))
}

func readStates(f string, states, nontriv map[uint64]struct{}) {
	fh, err := os.Open(f)
	if err != nil {
		return
	}
	defer fh.Close()
	br := bufio.NewReaderSize(fh, 1<<20)
	var b [9]byte
	for {
		if _, err := io.ReadFull(br, b[:]); err != nil {
			return
		}
		h := binary.LittleEndian.Uint64(b[1:])
		if b[0] == 0 {
			states[h] = struct{}{}
		} else {
			nontriv[h] = struct{}{}
		}
	}
}

func runWorker(exe string, chk *Check, tier string, seed, k, n, from int, deadline time.Time, sf, logf string, a *agg, mu *sync.Mutex) (cur int, finished bool) {
	pr, pw, err := os.Pipe()
	if err != nil {
		HarnessError("pipe: %v", err)
	}
	lf, _ := os.OpenFile(logf, os.O_CREATE|os.O_TRUNC|os.O_WRONLY, 0o644)
	cmd := exec.Command(exe, chk.ID, "--tier", tier, "--seed", strconv.Itoa(seed), "--worker", fmt.Sprintf("%d/%d", k, n),
		"--from", strconv.Itoa(from), "--deadline", strconv.FormatInt(deadline.UnixNano(), 10), "--states", sf)
	cmd.Stdout, cmd.Stderr = lf, lf
	cmd.ExtraFiles = []*os.File{pw}
	cmd.Env = append(os.Environ(), "GOMAXPROCS=2")
	if err := cmd.Start(); err != nil {
		HarnessError("start worker: %v", err)
	}
	pw.Close()
	cur = -1
	sc := bufio.NewScanner(pr)
	sc.Buffer(make([]byte, 1<<20), 1<<28)
	for sc.Scan() {
		var m wmsg
		if err := json.Unmarshal(sc.Bytes(), &m); err != nil {
			HarnessError("worker protocol: %v: %.200s", err, sc.Text())
		}
		switch m.T {
		case "begin":
			cur = m.I
			if lf != nil {
				lf.Truncate(0)
				lf.Seek(0, 0)
			}
		case "end":
			mu.Lock()
			a.done++
			a.evals += m.Ctx.Evals
			a.transitions += m.Ctx.Transitions
			a.traces += m.Ctx.Traces
			for k, v := range m.Ctx.Outcomes {
				a.outcomes[k] += v
			}
			for k, v := range m.Ctx.Extra {
				a.extra[k] += v
			}
			for vi := range m.Ctx.Viol {
				m.Ctx.Viol[vi].Index = m.I + 1
			}
			a.viol = append(a.viol, m.Ctx.Viol...)
			if len(a.samples) < 3 {
				a.samples = append(a.samples, m.Ctx.Samples...)
			}
			mu.Unlock()
			cur = -2
		case "done":
			mu.Lock()
			for k, v := range m.Ctx.Extra {
				if v > a.extra[k] {
					a.extra[k] = v
				}
			}
			mu.Unlock()
			finished = true
		}
	}
	pr.Close()
	cmd.Wait()
	lf.Close()
	if finished {
		return cur, true
	}
	if cur == -2 { // died between scenarios: should not happen
		return -1, false
	}
	return cur, false
}

func tailOf(f string, n int) string {
	b, _ := os.ReadFile(f)
	if len(b) > n {
		b = b[len(b)-n:]
	}
	return string(b)
}
func lastLine(s string) string {
	s = strings.TrimSpace(s)
	if i := strings.LastIndex(s, "\n"); i >= 0 {
		s = s[i+1:]
	}
	if len(s) > 300 {
		s = s[:300]
	}
	return s
}

// finish classifies violations, writes replays/evidence and prints the verdict.
func finish(chk *Check, tier string, seed int, start time.Time, nspecs int, a *agg, nstates, nnontriv int) int {
	known := loadKnown()
	type kf struct {
		re   *regexp.Regexp
		what string
		hit  int
	}
	var kfs []*kf
	for _, f := range known.Findings {
		if f.Property == chk.ID {
			re, err := regexp.Compile(f.ClassRegex)
			if err != nil {
				HarnessError("known_findings regex %q: %v", f.ClassRegex, err)
			}
			kfs = append(kfs, &kf{re: re, what: f.What})
		}
	}
	var fresh []Violation
	byClass := map[string]int{}
	for _, v := range a.viol {
		byClass[v.Class]++
		matched := false
		for _, k := range kfs {
			if k.re.MatchString(v.Class) {
				k.hit++
				matched = true
				break
			}
		}
		if !matched {
			fresh = append(fresh, v)
		}
	}
	exit := 0
	for _, k := range kfs {
		if k.hit > 0 {
			fmt.Printf("KNOWN-FINDING: property=%s %s (%d occurrences)\n", chk.ID, k.what, k.hit)
		}
	}
	// one replay artefact per distinct fresh class (shortest spec first = first found, enumeration is simplest-first)
	sort.SliceStable(fresh, func(i, j int) bool { return fresh[i].Class < fresh[j].Class })
	seen := map[string]bool{}
	nViolLines := 0
	for _, v := range fresh {
		if seen[v.Class] {
			continue
		}
		seen[v.Class] = true
		maxLines := 10
		if v, err := strconv.Atoi(os.Getenv("VERIF_MAX_VIOL")); err == nil && v > 0 {
			maxLines = v
		}
		if nViolLines >= maxLines {
			continue
		}
		// re-execute to make sure the violation is reproducible before it is believed
		if os.Getenv("VERIF_NO_RECHECK") == "" && v.Class != "crash" && v.Class != "data-race" { // (a race report of the free-running auxiliary pass is not deterministic)
			same, anyViol := reproduces(chk, tier, seed, v, 3)
			switch {
			case same == 3:
			case anyViol > 0:
				// the same scenario fails again, but not every time or not in the same way: the behaviour of the code under
				// test is not deterministic (on a tree where the property holds no execution of the scenario fails at all)
				v.What += fmt.Sprintf(" [not deterministic: of 3 re-executions of this scenario %d failed, %d in the same way]", anyViol, same)
			case v.Index > 0 && reproducesInWorkerOrder(chk, tier, seed, v):
				// alone in a fresh process the scenario passes, after the scenarios its worker process executed before it
				// fails again: the code under test carries state from run to run at package level
				v.What += " [fails again when the scenarios executed before it in the same process are executed first, passes alone in a fresh process: results depend on state the code keeps at package level between runs]"
			default:
				fmt.Fprintf(os.Stderr, "HARNESS-ERROR: violation %s class=%s did not reproduce in any of 3 re-executions; not reported\n", chk.ID, v.Class)
				return 2
			}
		}
		p := writeReplay(v)
		fmt.Printf("VIOLATION property=%s replay=%s\n", chk.ID, p)
		fmt.Printf("  class=%s: %s\n", v.Class, v.What)
		nViolLines++
		exit = 1
	}
	exhaustive := a.extra["budget_hit"] == 0 && a.done+a.crashes >= nspecs
	bound := ""
	if chk.Bound != nil {
		bound = chk.Bound(tier)
	}
	outcomes := map[string]int64{}
	for k, v := range a.outcomes {
		outcomes[k] = v
	}
	if nstates == 0 {
		nstates = int(a.evals)
	}
	samples := a.samples
	if len(samples) == 0 {
		samples = []interface{}{"(no sample recorded)"}
	}
	ev := map[string]interface{}{
		"property_id": chk.ID, "tier": tier, "seed": seed, "level": "model_checking",
		"coverage": map[string]interface{}{
			"states": nstates, "transitions": a.transitions, "traces_validated_against_impl": a.traces,
			"samples": samples, "evaluations": a.evals, "distinct_nontrivial": nnontriv, "rule": chk.Rule,
			"exhaustive": exhaustive, "bound": bound, "scenarios": nspecs, "scenarios_done": a.done,
			"worker_deaths": a.crashes, "distinct_outcomes": len(outcomes), "outcomes": outcomes, "counters": a.extra,
			"violation_classes": byClass, "technique": chk.Technique,
		},
		"assumptions": chk.Assumptions,
		"wall_s":      math.Round(time.Since(start).Seconds()*10) / 10,
		"violations":  len(fresh),
	}
	b, _ := json.MarshalIndent(ev, "", " ")
	os.MkdirAll(filepath.Join(OutDir(), "evidence"), 0o755)
	if err := os.WriteFile(filepath.Join(OutDir(), "evidence", chk.ID+".json"), b, 0o644); err != nil {
		HarnessError("evidence: %v", err)
	}
	fmt.Printf("%s tier=%s scenarios=%d/%d states=%d transitions=%d traces=%d evals=%d nontrivial=%d exhaustive=%v violations=%d known=%d wall=%.1fs\n",
		chk.ID, tier, a.done, nspecs, nstates, a.transitions, a.traces, a.evals, nnontriv, exhaustive, len(fresh), len(a.viol)-len(fresh), time.Since(start).Seconds())
	return exit
}

func writeReplay(v Violation) string {
	b, _ := json.MarshalIndent(v, "", " ")
	s := sha1.Sum(append([]byte(v.Class), v.Spec...))
	dir := filepath.Join(OutDir(), "replays")
	os.MkdirAll(dir, 0o755)
	p := filepath.Join(dir, v.Property+"-"+hex.EncodeToString(s[:6])+".json")
	os.WriteFile(p, b, 0o644)
	return p
}

var numWorkers int

// reproducesInWorkerOrder re-executes, in one fresh process, the scenarios the violation's worker process had executed
// before it (same order) and then the scenario itself.
func reproducesInWorkerOrder(chk *Check, tier string, seed int, v Violation) bool {
	if numWorkers <= 0 {
		return false
	}
	idx := v.Index - 1
	pr, pw, err := os.Pipe()
	if err != nil {
		return false
	}
	exe, _ := os.Executable()
	sf := filepath.Join(Scratch(), "recheck-states")
	cmd := exec.Command(exe, chk.ID, "--tier", tier, "--seed", strconv.Itoa(seed), "--worker", fmt.Sprintf("%d/%d", idx%numWorkers, numWorkers),
		"--from", "0", "--upto", strconv.Itoa(idx), "--deadline", strconv.FormatInt(time.Now().Add(2*time.Hour).UnixNano(), 10), "--states", sf)
	cmd.ExtraFiles = []*os.File{pw}
	cmd.Env = append(os.Environ(), "GOMAXPROCS=2")
	if err := cmd.Start(); err != nil {
		pw.Close()
		pr.Close()
		return false
	}
	pw.Close()
	found := false
	sc := bufio.NewScanner(pr)
	sc.Buffer(make([]byte, 1<<20), 1<<28)
	for sc.Scan() {
		var m wmsg
		if json.Unmarshal(sc.Bytes(), &m) != nil {
			continue
		}
		if m.T == "end" && m.I == idx && m.Ctx != nil {
			for _, got := range m.Ctx.Viol {
				if got.Class == v.Class {
					found = true
				}
			}
		}
	}
	pr.Close()
	cmd.Wait()
	os.Remove(sf)
	return found
}

// reproduces re-executes the scenario n times in fresh processes: same = runs that failed with the same class,
// anyViol = runs that failed at all.
func reproduces(chk *Check, tier string, seed int, v Violation, n int) (same, anyViol int) {
	tmp := filepath.Join(Scratch(), "recheck.json")
	b, _ := json.Marshal(v)
	os.WriteFile(tmp, b, 0o644)
	exe, _ := os.Executable()
	for i := 0; i < n; i++ {
		cmd := exec.Command(exe, chk.ID, "--tier", tier, "--seed", strconv.Itoa(seed), "--replay", tmp, "--quiet")
		out, _ := cmd.CombinedOutput()
		switch {
		case strings.Contains(string(out), "REPRODUCED class="+v.Class+"\n"):
			same++
			anyViol++
		case strings.Contains(string(out), "REPRODUCED class="):
			anyViol++
			fmt.Fprintf(os.Stderr, "recheck %d output: %.2000s\n", i, out)
		default:
			fmt.Fprintf(os.Stderr, "recheck %d output: %.2000s\n", i, out)
		}
	}
	return same, anyViol
}

// ReplayMain re-executes the scenario of a replay file without the enumerator.
func ReplayMain(chk *Check, tier string, seed int, file string, quiet bool) int {
	b, err := os.ReadFile(file)
	if err != nil {
		HarnessError("replay: %v", err)
	}
	var v Violation
	if err := json.Unmarshal(b, &v); err != nil {
		HarnessError("replay: %v", err)
	}
	os.Unsetenv("VERIF_SCRATCH") // a replay never shares (or removes) the scratch directory of a parent
	defer os.RemoveAll(Scratch())
	if chk.Prepare != nil && os.Getenv("VERIF_PREPARED") == "" {
		chk.Prepare(tier)
	}
	c := newCtx(chk.ID, tier, seed)
	c.spec = v.Spec
	c.Replaying = true
	chk.Run(v.Spec, c)
	rc := 0
	for _, got := range c.Viol {
		fmt.Printf("REPRODUCED class=%s\n", got.Class)
		if !quiet {
			fmt.Printf("  %s\n", got.What)
			d, _ := json.MarshalIndent(got.Detail, "  ", " ")
			fmt.Printf("  detail: %s\n", d)
		}
		if got.Class == v.Class {
			rc = 1
		}
	}
	if rc == 1 && !quiet {
		fmt.Printf("VIOLATION property=%s replay=%s\n", chk.ID, file)
	}
	if rc == 0 && !quiet {
		fmt.Printf("not reproduced: class=%s\n", v.Class)
	}
	return rc
}

// ---- real binaries of the repository under test ------------------------------------------------

func repoDir() string {
	if d := os.Getenv("VERIF_REPO"); d != "" {
		return d
	}
	return "/repo"
}

// RepoBinary returns the path of the binary built from <repo>/src/<name> (see BuildRepoBinary).
func RepoBinary(name string) string {
	h := fnv.New32a()
	h.Write([]byte(repoDir()))
	return filepath.Join(VerifDir(), ".bin", fmt.Sprintf("%s.%08x", name, h.Sum32()))
}

// BuildRepoBinary builds <repo>/src/<name> from the current working tree (no verif tag: the shipped program).
func BuildRepoBinary(name string) string {
	out := RepoBinary(name)
	os.MkdirAll(filepath.Dir(out), 0o755)
	cmd := exec.Command("go", "build", "-o", out, ".")
	cmd.Dir = filepath.Join(repoDir(), "src", name)
	cmd.Env = append(os.Environ(), "GOFLAGS=-mod=mod", "GOPROXY=off", "GOSUMDB=off", "GOTOOLCHAIN=local", "GOWORK=off")
	if b, err := cmd.CombinedOutput(); err != nil {
		HarnessError("build %s: %v\n%s", name, err, b)
	}
	return out
}

// BuildRepoBinaryRace builds <repo>/src/<name> with the race detector; "" if that build is not possible here.
func BuildRepoBinaryRace(name string) string {
	out := RepoBinary(name) + ".race"
	os.MkdirAll(filepath.Dir(out), 0o755)
	cmd := exec.Command("go", "build", "-race", "-o", out, ".")
	cmd.Dir = filepath.Join(repoDir(), "src", name)
	cmd.Env = append(os.Environ(), "GOFLAGS=-mod=mod", "GOPROXY=off", "GOSUMDB=off", "GOTOOLCHAIN=local", "GOWORK=off", "CGO_ENABLED=1")
	if _, err := cmd.CombinedOutput(); err != nil {
		return ""
	}
	return out
}
