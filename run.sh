#!/bin/bash
# run.sh <Cnn> <quick|thorough> [extra vcheck args]  — rebuilds vcheck from /repo's working tree (tag verif) and runs the check
set -u
VERIF_DIR="$(cd "$(dirname "$0")" && pwd)"
export VERIF_DIR
export VERIF_REPO="${VERIF_REPO:-/repo}"
export GOFLAGS=-mod=mod GOPROXY=off GOSUMDB=off GOTOOLCHAIN=local GOWORK=off
export GOCACHE="${GOCACHE:-$VERIF_DIR/.gocache}"
mkdir -p "$VERIF_DIR/.bin" "$VERIF_DIR/evidence" "$VERIF_DIR/replays"
id="$1"; tier="${2:-${VERIF_TIER:-quick}}"; shift; shift || true
# module file pointing at the repository under test
key=$(echo "$VERIF_REPO" | cksum | cut -d' ' -f1)
modf="$VERIF_DIR/engine/go.gen.$key.mod"
sed "s#=> /repo/hermes#=> $VERIF_REPO/hermes#" "$VERIF_DIR/engine/go.mod" > "$modf"
cp "$VERIF_DIR/engine/go.sum" "${modf%.mod}.sum"
bin="$VERIF_DIR/.bin/vcheck.$key"
( cd "$VERIF_DIR/engine" && go build -modfile="$modf" -tags verif -o "$bin" ./cmd/vcheck ) || { echo "HARNESS-ERROR: build failed" >&2; exit 2; }
if [ "$id" = "build" ]; then exit 0; fi
exec "$bin" "$id" --tier "$tier" "$@"
