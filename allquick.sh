#!/bin/bash
# Runs every check's quick tier once (evidence redirected if VERIF_OUT_DIR is set) and prints one line per check.
cd "$(dirname "$0")"
./run.sh build || exit 2
for id in ${*:-C01 C02 C04 C05 C06 C07 C08 C09 C10 C12 C13 C14 C15 C16 C17 C18 C19 C20 C11 C03}; do
  s=$(date +%s)
  ./run.sh $id quick > /tmp/q_$id.log 2>&1; rc=$?
  e=$(date +%s)
  echo "$id rc=$rc t=$((e-s))s viol=$(grep -c '^VIOLATION' /tmp/q_$id.log) known=$(grep -c '^KNOWN-FINDING' /tmp/q_$id.log) :: $(tail -1 /tmp/q_$id.log | cut -c1-200)"
done
