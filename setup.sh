#!/bin/bash
# Builds the framework offline from files on disk and warms the build cache.
set -e
cd "$(dirname "$0")"
./run.sh build
echo setup ok
