#!/bin/bash
# Builds the framework offline from files on disk and warms the build cache.
set -e
cd "$(dirname "$0")"
./run.sh build
# warm the build cache: real binaries, the rewritten dispatcher and the race-detector build
for c in C17 C03; do ./run.sh $c quick --prepare-only || exit 1; done
echo setup ok
