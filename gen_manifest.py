#!/usr/bin/env python3
# Generates MANIFEST.json from checks.json (single source of truth for what is claimed).
import json,subprocess,os
here=os.path.dirname(os.path.abspath(__file__))
cfg=json.load(open(os.path.join(here,'checks.json')))
props=[json.loads(l) for l in open(os.path.join(here,'properties.jsonl'))]
hooks=cfg['hooks']
checks=[];na=[]
for p in props:
    c=cfg['checks'].get(p['id'])
    if not c or c.get('not_applicable'):
        na.append({"property_id":p['id'],"reason":(c or {}).get('not_applicable',"check not built yet (work in progress; see DESIGN.md section 9)")})
        continue
    checks.append({
      "property_id":p['id'],
      "quick_cmd":f"./run.sh {p['id']} quick",
      "thorough_cmd":f"./run.sh {p['id']} thorough",
      "evidence_file":f"/verif/evidence/{p['id']}.json",
      "replay_cmd_template":f"./run.sh {p['id']} quick --replay {{path}}",
      "engine":c['engine'],
      "level_claimed":{"category":"model_checking","text":c['text'],"design_ref":f"DESIGN.md section 6, {p['id']}"},
      "level_note":c['note'],
      "technique":c['technique'],
    })
m={"version":1,"setup_cmd":"./setup.sh","hooks":hooks,"engines":cfg['engines'],"checks":checks,"notes":cfg.get('notes',''),"not_applicable":na}
json.dump(m,open(os.path.join(here,'MANIFEST.json'),'w'),indent=1)
print("claimed",len(checks),"not_applicable",len(na))
