#!/bin/bash
# seedimport.sh <Cnn> <name> "<needs>" : copies a sub-agent's deliverables from /tmp/wt-<Cnn>/_seed into seeded/<name>/,
# after confirming in that worktree that the demonstration fails with the change and passes without it.
set -u
cd "$(dirname "$0")"
id="$1"; name="$2"; needs="$3"; wt="${4:-/tmp/wt-$id}"
[ -f "$wt/_seed/patch.diff" ] || { echo "no patch"; exit 2; }
export GOFLAGS=-mod=mod GOPROXY=off GOSUMDB=off GOTOOLCHAIN=local GOWORK=off
cd "$wt"
git checkout -q -- . 2>/dev/null; git apply _seed/patch.diff || { echo "patch does not apply in its own worktree"; exit 2; }
( bash _seed/run.sh ) > /tmp/seed-$id-with.log 2>&1; with=$?
git checkout -q -- .
( bash _seed/run.sh ) > /tmp/seed-$id-without.log 2>&1; without=$?
git apply _seed/patch.diff
echo "demo exit with change=$with without change=$without"
cd /verif
mkdir -p seeded/$name
rsync -a --exclude '*.exe' --exclude 'bin/' --exclude 'work/' --exclude 'tmp/' --exclude 'out/' --max-size=300k "$wt/_seed/" seeded/$name/
python3 - "$id" "$name" "$needs" "$with" "$without" <<'PY'
import json,sys
id,name,needs,w,wo=sys.argv[1:]
json.dump({"property":id,"name":name,"needs_to_manifest":needs,"origin":"independent sub-agent given only the property text and a scratch worktree",
 "demonstration":{"cmd":"bash _seed/run.sh (from the worktree root)","exit_with_change":int(w),"exit_without_change":int(wo)},
 "ran":["/tmp/seedtools/runtests.sh <worktree> (pinned suite, 1610 pass)","bash _seed/run.sh with and without the change","./seedcheck.sh "+name]},open(f"seeded/{name}/meta.json","w"),indent=1)
PY
du -sh seeded/$name | cut -f1
