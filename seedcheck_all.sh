#!/bin/bash
# Runs every seeded change against the check of its property (quick tier) and prints one line per seed.
cd "$(dirname "$0")"
for d in seeded/*/; do
  n=$(basename "$d")
  SEED_SKIP_TESTS="${SEED_SKIP_TESTS:-1}" ./seedcheck.sh "$n" quick 2>&1 | grep "^SEED" | cut -c1-260
done
