#!/bin/bash
# Runs every check's thorough tier once (evidence redirected if VERIF_OUT_DIR is set) and prints one line per check.
cd "$(dirname "$0")"
./run.sh build
for id in ${*:-C01 C02 C04 C05 C06 C07 C08 C09 C10 C12 C13 C14 C15 C16 C17 C18 C19 C20 C11 C03}; do
  s=$(date +%s)
  ./run.sh $id thorough > /tmp/t_$id.log 2>&1; rc=$?
  e=$(date +%s)
  echo "$id rc=$rc t=$((e-s))s viol=$(grep -c '^VIOLATION' /tmp/t_$id.log) known=$(grep -c '^KNOWN-FINDING' /tmp/t_$id.log) :: $(tail -1 /tmp/t_$id.log | cut -c1-250)"
done
